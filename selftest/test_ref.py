#!/usr/bin/env python3
"""Self-tests of the monitors' own trusted parts (no repository code involved, except for reading its
test programs as text):  /venv/bin/python selftest/test_ref.py   (or python3-vt, which adds the scipy cross-check)."""

import hashlib
import os
import random
import sys
from fractions import Fraction

HERE = os.path.dirname(os.path.dirname(os.path.abspath(__file__)))
sys.path.insert(0, HERE)

from pyabv import stats  # noqa: E402
from pyabv.gen import corpus, golden  # noqa: E402
from pyabv.gen.programs import Profile, ProgGen  # noqa: E402
from pyabv.ref import bucket  # noqa: E402
from pyabv.ref.eval import Unroutable, route  # noqa: E402
from pyabv.ref.lex import Ambiguous, Reject, tokenize  # noqa: E402
from pyabv.ref.parse import And, Cmp, Id, Lit, Not, Or, Tup, accepts, parse  # noqa: E402

FAILS = []


def check(cond, what):
    if not cond:
        FAILS.append(what)
        print("FAIL:", what)


def pred_of(src):
    return parse("def t { if %s { return 1 weighted 1 } }" % src).cond.arms[0][0]


def main():
    # -- documented examples and the repository's test programs are sentences
    for name, text in list(corpus.DOCUMENTED.items()) + list(corpus.test_programs().items()) + list(enumerate(corpus.SEEDS)):
        check(accepts(text) is True, f"reference accepts documented/test program {name}")
    # -- precedence: or < and < not < comparison; parentheses override
    a, b, c = (Cmp(Id(n), "==", Lit(1, "1")) for n in "abc")
    check(pred_of("a == 1 or b == 1 and c == 1") == Or(a, And(b, c)), "and binds tighter than or")
    check(pred_of("a == 1 and b == 1 or c == 1") == Or(And(a, b), c), "and binds tighter than or (left)")
    check(pred_of("not a == 1 and b == 1") == And(Not(a), b), "not binds tighter than and")
    check(pred_of("not (a == 1 and b == 1)") == Not(And(a, b)), "parentheses override")
    check(pred_of("(a == 1 or b == 1) and c == 1") == And(Or(a, b), c), "parentheses override (or inside and)")
    check(pred_of("a == 1 or b == 1 or c == 1") == Or(Or(a, b), c), "or is left associative")
    check(pred_of("not not a == 1") == Not(Not(a)), "not not")
    check(pred_of("((a == 1))") == a, "redundant parentheses")
    # -- (x) is a one-element tuple, never a parenthesised term
    check(pred_of("(a) == (b)") == Cmp(Tup((Id("a"),)), "==", Tup((Id("b"),))), "(a) is a tuple")
    check(pred_of("a in ((1, 2), (3))").right == Tup((Tup((Lit(1, "1"), Lit(2, "2"))), Tup((Lit(3, "3"),)))), "nested tuples")
    # -- maximal munch and whole-word keywords
    kinds = [t.kind for t in tokenize("order_id index not_active android ifx elsewhere IN If not  in else\n if >= <= == != > < - 1.5 007")]
    check(kinds == ["ID"] * 8 + ["NOT_IN", "ELIF", "GE", "LE", "EQ", "NE", "GT", "LT", "MINUS", "FLOAT", "INT"], "token kinds " + str(kinds))
    check([t.text for t in tokenize("\"a'b\" 'c\"d' \"\"")] == ["a'b", 'c"d', ""], "string literals")
    check(len(tokenize("a /* x */ b // c */ d\n e /**/ f /***/ g")) == 5, "comments are trivia")
    # -- three-valued answers
    for text, want in (("elseif", Ambiguous), ("/* a /* b */", Ambiguous), ("x = 1", Reject), ("\"open", Reject), ("/* open", Reject),
                       ("1.", Reject), (".5", Reject), ("a ; b", Reject), ("١", Ambiguous)):
        try:
            tokenize(text)
            check(False, f"tokenize({text!r}) should raise {want.__name__}")
        except (Reject, Ambiguous) as e:
            check(type(e) is want, f"tokenize({text!r}) raises {want.__name__}, got {type(e).__name__}")
    from pyabv.props.c06 import FIXED_TEXTS

    for t in FIXED_TEXTS:
        check(accepts(t) is False, f"fixed invalid text is rejected by the reference: {t[:60]!r}")
    # -- literals keep exact values
    g = parse('def t { return 9007199254740993 weighted 1, -0.0 weighted 1, "02134" weighted 1, - 7 weighted 0.50 }').cond.groups
    check([type(x.label.value).__name__ for x in g] == ["int", "float", "str", "int"], "literal types")
    check(g[0].label.value == 9007199254740993 and repr(g[1].label.value) == "-0.0" and g[3].label.value == -7, "literal values")
    check(g[3].weight == Fraction(1, 2), "weight as exact fraction")
    # -- routing
    prog = parse('def t { if a > 1 { if b == 2 { return "x" weighted 1 } } else if a == 1 { return "y" weighted 1 } else { return "z" weighted 1 } }')
    check(route(prog.cond, dict(a=2, b=2)).ordinal == 0 and route(prog.cond, dict(a=1, b=0)).ordinal == 1 and route(prog.cond, dict(a=0, b=0)).ordinal == 2, "routing")
    try:
        route(prog.cond, dict(a=2, b=3))
        check(False, "nested fall-through is unroutable")
    except Unroutable:
        pass
    # -- generator round trip: render -> reference parse reproduces the generated AST
    rnd = random.Random(5)
    bad = 0
    for i in range(300):
        gp = ProgGen(rnd, Profile(max_depth=3, max_arms=3, pred_depth=3, hard_literals=0.6, p_const_pred=0.1)).program()
        p = parse(gp.text)
        bad += (p.id, p.salt, p.splitters, p.cond) != (gp.ast.id, gp.ast.salt, gp.ast.splitters, gp.ast.cond)
    check(bad == 0, f"generator round trip mismatches: {bad}")
    # -- bucketing: integer Partition == Fraction version; known positions
    for i in range(400):
        n = rnd.randint(1, 12)
        ws = [Fraction(rnd.choice([0, 1, 2, 3, 7, 10**9]), rnd.choice([1, 1, 3, 10**9])) for _ in range(n)]
        if not any(ws):
            ws[0] = Fraction(1)
        part = bucket.Partition(ws)
        for k in [0, 1, 2**32 - 1, rnd.randrange(2**32)] + [min(2**32 - 1, max(0, c + d)) for c in part.ceil[1:-1] for d in (-2, -1, 0, 1, 2)]:
            check(part.exact(k) == bucket.exact_index(ws, k), f"Partition.exact {ws} {k}")
            check(part.allowed(k) == bucket.allowed_indices(ws, k), f"Partition.allowed {ws} {k}")
    check(bucket.position_of_key("") == 0xD41D8CD9 and bucket.position_of_key("abc") == 0x90015098, "MD5 known answers (RFC 1321)")
    check(bucket.key_string("s", ["b", "a"], dict(a=1, b="x")) == "s1x", "key = salt + values in sorted field order")
    from pyabv.props.c12 import KAT

    for s, k in KAT:
        check(int(hashlib.md5(s.encode()).hexdigest()[:8], 16) == k, f"hard-coded KAT {s[:20]!r}")
    check(len(golden.load()) >= 700, "golden ids load and re-hash")
    # -- chi-square tail
    check(abs(stats.chi2_sf(3.841458820694124, 1) - 0.05) < 1e-12, "chi2 sf 5% critical value, 1 df")
    check(abs(stats.chi2_sf(37.3248, 1) / 1e-9 - 1) < 0.01, "chi2 sf at 1e-9, 1 df")
    try:
        from scipy.stats import chi2

        worst = max(abs(stats.chi2_logsf(x, df) - chi2.logsf(x, df)) / abs(chi2.logsf(x, df)) for df in (1, 2, 5, 9, 63, 200) for x in (0.5, 3, 30, 100, 500, 1500))
        check(worst < 1e-9, f"chi2 log sf vs scipy, worst relative error {worst}")
        print("scipy cross-check done, worst relative error", worst)
    except ImportError:
        print("scipy not importable under this interpreter: cross-check skipped (run with python3-vt)")
    print("selftest:", "OK" if not FAILS else f"{len(FAILS)} FAILED")
    return 1 if FAILS else 0


if __name__ == "__main__":
    sys.exit(main())
