#!/usr/bin/env bash
# MANIFEST.setup_cmd: offline bootstrap of the two contract libraries beside the repository's
# own interpreter (pure-Python wheels from the local wheelhouse; .deps is git-ignored).
set -eu
HERE="$(cd "$(dirname "${BASH_SOURCE[0]}")" && pwd)"
PY="${VERIF_PYTHON:-/venv/bin/python}"
if [ ! -d "$HERE/.deps/icontract" ] || [ ! -d "$HERE/.deps/deal" ]; then
    rm -rf "$HERE/.deps.tmp"
    PIP_NO_INDEX=1 "$PY" -m pip install --quiet --no-index --find-links /opt/veriftools/wheels \
        --target "$HERE/.deps.tmp" icontract deal
    rm -rf "$HERE/.deps"
    mv "$HERE/.deps.tmp" "$HERE/.deps"
fi
mkdir -p "$HERE/evidence" "$HERE/replays"
echo "setup ok"
