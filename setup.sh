#!/usr/bin/env bash
# MANIFEST.setup_cmd: offline bootstrap of the two contract libraries beside the repository's
# own interpreter (pure-Python wheels from the local wheelhouse; .deps is git-ignored).
# Safe to run concurrently (several checks started at once on a fresh checkout): serialised with a
# lock, installed into a private temp dir and moved into place atomically.
set -eu
HERE="$(cd "$(dirname "${BASH_SOURCE[0]}")" && pwd)"
PY="${VERIF_PYTHON:-/venv/bin/python}"
mkdir -p "$HERE/evidence" "$HERE/replays"
(
    flock 9
    if [ ! -d "$HERE/.deps/icontract" ] || [ ! -d "$HERE/.deps/deal" ]; then
        tmp="$HERE/.deps.tmp.$$"
        rm -rf "$tmp"
        PIP_NO_INDEX=1 "$PY" -m pip install --quiet --no-index --find-links /opt/veriftools/wheels \
            --target "$tmp" icontract deal
        rm -rf "$HERE/.deps"
        mv "$tmp" "$HERE/.deps"
    fi
) 9>"$HERE/.deps.lock"
echo "setup ok"
