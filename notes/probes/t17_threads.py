import sys, threading, random, time
from pyab_experiment.experiment_evaluator import ExperimentEvaluator
from pyab_experiment.utils.wraper_functions import parse_source
import pyab_experiment.utils.wraper_functions as wf
sys.setswitchinterval(1e-6)
srcs=[]
for i in range(6):
    srcs.append(f'''/* block {i} */ def exp{i}{{ /* c */ salt: "s{i}" /* d
     multi */ splitters: uid, f{i}
  if a{i} == {i} and not b in (1,2,{i}) or c >= {i}.5 {{ /* x */ return "g{i}a" weighted {i+1}, "g{i}b" weighted 2 }}
  else if a{i} < 0 {{ return "n{i}" weighted 1 }} // trailing
  else {{ return "d{i}" weighted 1, "e{i}" weighted 3 }} }}''')
inputs=[dict(uid=u, **{f"f{i}":u*3 for i in range(6)}, **{f"a{i}":u%7 for i in range(6)}, b=u%5, c=u%9) for u in range(50)]
ref={}
for i,s in enumerate(srcs):
    ev=ExperimentEvaluator(s)
    ref[i]=[ev(**inp) for inp in inputs]
refast=[parse_source(s) for s in srcs]
if len(sys.argv)>1 and sys.argv[1]=="mutant":
    from pyab_experiment.language.lexer import ExperimentLexer
    from pyab_experiment.language.grammar import ExperimentParser
    L=ExperimentLexer(); P=ExperimentParser()
    def parse_source_cached(text):
        return P.parse(L.tokenize(text))
    wf.parse_source=parse_source_cached
    import pyab_experiment.experiment_evaluator as ee
    ee.parse_source=parse_source_cached
    parse_source=parse_source_cached
errs=[]
def worker(tid):
    rnd=random.Random(tid)
    for it in range(200):
        i=rnd.randrange(6)
        try:
            a=parse_source(srcs[i])
            if a!=refast[i]: errs.append(("ast",tid,i)); 
            ev=ExperimentEvaluator(srcs[i])
            got=[ev(**inp) for inp in inputs]
            if got!=ref[i]: errs.append(("res",tid,i))
        except Exception as e:
            errs.append(("exc",tid,i,type(e).__name__,str(e)[:80]))
t0=time.time()
ths=[threading.Thread(target=worker,args=(t,)) for t in range(8)]
[t.start() for t in ths];[t.join() for t in ths]
print("errors",len(errs),errs[:5],"time",time.time()-t0)
