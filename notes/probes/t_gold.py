import json, sys, hashlib, random, collections
sys.path.insert(0,'/tmp/scratch/proto')
from fractions import Fraction as F
from decimal import Decimal
from chi import chi2_sf
from pyab_experiment.experiment_evaluator import ExperimentEvaluator
G=json.load(open('/verif/data/golden_ids.json'))['ids']
def allowed(ws,k):
    W=sum(ws); c=F(0); out=[]
    exact=all(w.denominator==1 for w in ws) and W<2**21
    for i,w in enumerate(ws):
        lo=c/W*2**32; c+=w; hi=c/W*2**32
        if w>0 and (lo<=k<hi if exact else (lo<=k+1 and hi>k-1)): out.append(i)
    return out
n=0; bad=0; exactn=0
for vec in (["1","1"],["1","2","3"],["4","1"],["1","1","2"],["1","9"],["2","8"],["1","99"],["0.5","0.5"],["0.1","0.2","0.7"],["3.4","5","3"],["1"]*64,["1","0","1"],["0","1","1"],["1","1","0"],["1000000000","1"],["0.000000001","1"],["1","2","3","0","4"]):
    ws=[F(Decimal(x)) for x in vec]
    src='def e{ salt: "g" splitters: uid\n return '+", ".join(f'"{i}" weighted {w}' for i,w in enumerate(vec))+' }'
    ev=ExperimentEvaluator(src)
    src2='def e{ splitters: uid\n return '+", ".join(f'"{i}" weighted {w}' for i,w in enumerate(vec))+' }'
    ev2=ExperimentEvaluator(src2)
    for ks,ids in G.items():
        k=int(ks)
        for s in ids[:2]:
            r=int(ev(uid=int(s[1:]))); r2=int(ev2(uid=s)); n+=1
            al=allowed(ws,k)
            if r not in al or r2!=r: bad+=1; print("BAD",vec,k,s,r,r2,al)
            if ws[r]==0: print("ZERO",vec,k)
print("golden checks",n,"bad",bad)
# C04 quick
def chi_gof(counts,ws):
    N=sum(counts); W=sum(ws); x=0; df=-1
    for c,w in zip(counts,ws):
        if w==0: 
            assert c==0; continue
        e=N*float(w/W); x+=(c-e)**2/e; df+=1
    return chi2_sf(x,df)
rnd=random.Random(3); minp=1
fams={'seq':lambda i:100000+i,'pad':lambda i:'%08d'%i,'uuid':lambda i:'%08x-0000-4000-8000-%012x'%(0xabcdef12,i),'mail':lambda i:f'user.{i}@example.com','hex':lambda i:hashlib.sha1(str(i).encode()).hexdigest()[:16]}
for fam,f in fams.items():
  for vec in (["1","1"],["1","2","3"],["1","99"],["1","0","3"]):
    ws=[F(Decimal(x)) for x in vec]
    evs=[ExperimentEvaluator(f'def e{{ salt: "{s}" splitters: uid\n return '+", ".join(f'"{i}" weighted {w}' for i,w in enumerate(vec))+' }') for s in ("A","B","é")]
    N=20000; cnt=[collections.Counter() for _ in evs]; cont=collections.Counter()
    for i in range(N):
        rs=[int(ev(uid=f(i))) for ev in evs]
        for c,r in zip(cnt,rs): c[r]+=1
        cont[(rs[0],rs[1])]+=1
    for c in cnt:
        p=chi_gof([c[i] for i in range(len(vec))],ws); minp=min(minp,p)
    # independence
    rows=[i for i,w in enumerate(ws) if w>0]
    x=0
    for a in rows:
        for b in rows:
            e=cnt[0][a]*cnt[1][b]/N; x+=(cont[(a,b)]-e)**2/e
    p=chi2_sf(x,(len(rows)-1)**2); minp=min(minp,p)
print("C04 min p over",len(fams)*4*4,"tests:",minp)
