import random, sys, traceback, collections
sys.path.insert(0,'/tmp/scratch/proto')
from gen import *
from pyab_experiment.experiment_evaluator import ExperimentEvaluator
from pyab_experiment.codegen.python.custom_exceptions import ExperimentConditionalFailedError
from pyab_experiment.utils.wraper_functions import generate_code

IDS_NUM=['age','n','order_id','index','Count','_x','x1','android_version','notify_level','iffy','elsewhere','defn','returns','weighted_avg','salty','splitters_n','org','innings']
IDS_STR=['country','s','not_active','info','Name','_','or_else','andy','input','format','strx','mapx','k']
STRS=['US','CA','a','b','','02134','inf','1e5','nan','it\'s','say "hi"','C:\\temp','\\','é','日本','x y','//c','/*c*/','#','%s','{0}','\\n','\t','None','True','-1','1.0']
def gen_num_lit(rnd):
    r=rnd.random()
    if r<0.5: t=str(rnd.randint(0,20))
    elif r<0.7: t=f"{rnd.randint(0,20)}.{rnd.choice(['0','5','25','125'])}"
    elif r<0.8: t=str(rnd.choice([2**53+1,10**30,2**64]))
    else: t=rnd.choice(['007','0','0.0','1.50'])
    if rnd.random()<0.25: t='-'+rnd.choice(['',' '])+t
    return ('num',t)
def gen_lit(rnd,ty):
    return gen_num_lit(rnd) if ty=='num' else rnd.choice(STRS)
class G:
    def __init__(self,rnd):
        self.rnd=rnd; self.used={}; self.lits=collections.defaultdict(list); self.nret=0; self.tupids=set()
    def ident(self,ty):
        n=self.rnd.choice(IDS_NUM if ty=='num' else IDS_STR); self.used[n]=ty; return n
    def cmp(self):
        rnd=self.rnd; ty=rnd.choice(['num','str']); a=self.ident(ty)
        op=rnd.choice(OPS)
        if op in('in','not in'):
            if rnd.random()<0.8:
                items=[]
                for _ in range(rnd.randint(1,4)):
                    l=gen_lit(rnd,ty); self.lits[a].append(l); items.append(('lit',l))
                if rnd.random()<0.2:
                    b=self.ident(ty); items.append(('id',b))
                right=('tup',items)
            else:
                tn='T_'+ty; self.used[tn]='tup_'+ty; right=('id',tn)
            return ('cmp',('id',a),op,right)
        if rnd.random()<0.2:
            b=self.ident(ty); return ('cmp',('id',a),op,('id',b))
        l=gen_lit(rnd,ty); self.lits[a].append(l)
        if rnd.random()<0.2: return ('cmp',('lit',l),op,('id',a))
        return ('cmp',('id',a),op,('lit',l))
    def pred(self,d=0):
        rnd=self.rnd; r=rnd.random()
        if d>3 or r<0.45: p=self.cmp()
        elif r<0.6:
            c=self.pred(d+1)
            if c[0] in('and','or'): c=('paren',c)
            p=('not',c)
        elif r<0.8:
            a=self.pred(d+1); b=self.pred(d+1)
            if a[0]=='or': a=('paren',a)
            if b[0] in('or','and'): b=('paren',b)
            p=('and',a,b)
        elif r<0.95:
            a=self.pred(d+1); b=self.pred(d+1)
            if b[0]=='or': b=('paren',b)
            p=('or',a,b)
        else: p=('paren',self.pred(d+1))
        return p
    def ret(self):
        rnd=self.rnd; i=self.nret; self.nret+=1
        n=rnd.choice([1,1,2,3,5])
        groups=[]
        for j in range(n):
            lab=rnd.choice([f"r{i}g{j}", f"r{i}g{j}"]) 
            w=rnd.choice(['1','2','0','0.5','3.4','10']) 
            groups.append((lab,w))
        if all(F(Decimal(w))==0 for _,w in groups): groups[0]=(groups[0][0],'1')
        return ('ret',groups,i)
    def cond(self,d=0):
        rnd=self.rnd
        if d>3 or rnd.random()<0.3: return self.ret()
        arms=[(self.pred(),self.cond(d+1)) for _ in range(rnd.choice([1,1,2,3,6]))]
        els=self.cond(d+1) if rnd.random()<0.6 else None
        return ('if',arms,els)
    def prog(self):
        rnd=self.rnd
        c=self.cond()
        spl=rnd.sample(['uid','sid','country','age','order_id','B','_z'],rnd.randint(1,3))
        for s in spl: self.used.setdefault(s,'str' if s in IDS_STR else 'num')
        salt=rnd.choice([None,'','s1','é','a\'b','x"y','\\'])
        return dict(id=rnd.choice(['e','exp_1','Test','index']),salt=salt,splitters=spl,cond=c)
def gen_env(g,rnd):
    env={}
    for n,ty in g.used.items():
        if ty=='num':
            cands=[rnd.randint(-3,25),rnd.random()*20]
            for l in g.lits[n]:
                v=litval(l); cands+= [v,v+1,v-1] + ([v+0.5] if abs(v)<1e15 else [])
            env[n]=rnd.choice(cands)
        elif ty=='str':
            cands=[rnd.choice(STRS),'zz']
            for l in g.lits[n]: cands+=[l,l+'x',l[:-1]]
            env[n]=rnd.choice(cands)
        elif ty=='tup_num': env[n]=tuple(rnd.randint(0,20) for _ in range(3))
        else: env[n]=tuple(rnd.choice(STRS) for _ in range(3))
    return env
def main(seed,N):
    rnd=random.Random(seed); fails=collections.Counter(); ex={}
    nprog=0; ncall=0; nunr=0
    for _ in range(N):
        g=G(rnd); prog=g.prog(); src=render(prog,rnd); nprog+=1
        try: ev=ExperimentEvaluator(src)
        except BaseException as e:
            k=('construct',type(e).__name__,str(e)[:60]); fails[k]+=1; ex.setdefault(k,src); continue
        fns=[]
        if rnd.random()<0.15:
            for expose in (False,True):
                try:
                    ns={}; exec(generate_code(src,expose),ns); fns.append(ns[prog['id']])
                except BaseException as e:
                    k=('gencode',expose,type(e).__name__,str(e)[:60]); fails[k]+=1; ex.setdefault(k,src)
        for _ in range(20):
            env=gen_env(g,rnd); ncall+=1
            try:
                r=route(prog['cond'],env); k=position(prog,env); exp=[r[1][i][0] for i in allowed_groups(r,k)]
            except Unroutable: exp='UNR'; nunr+=1
            except TypeError as e:
                continue
            outs=[]
            for f in [ev]+fns:
                try: got=f(**env)
                except ExperimentConditionalFailedError: got='UNR'
                except BaseException as e: got=('EXC',type(e).__name__,str(e)[:50])
                outs.append(got)
            got=outs[0]
            ok = (got=='UNR') if exp=='UNR' else (got in exp)
            if not ok:
                k=('call',str(got)[:70] if isinstance(got,tuple) else 'wrong'); fails[k]+=1; ex.setdefault(k,(src,env,exp,got))
            if any(o!=got for o in outs[1:]):
                k=('gencode-diff',); fails[k]+=1; ex.setdefault(k,(src,env,outs))
    print("programs",nprog,"calls",ncall,"unroutable",nunr)
    for k,v in fails.most_common(): print(v,k); print("   EX:",str(ex[k])[:1500])
if __name__=="__main__": main(int(sys.argv[1]),int(sys.argv[2]))
