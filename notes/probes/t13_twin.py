import ast, sys, random, builtins, io, contextlib
from pyab_experiment.utils.wraper_functions import parse_source, generate_code
from pyab_experiment.codegen.python.python_generator import PythonCodeGen
from pyab_experiment.experiment_evaluator import ExperimentEvaluator
class Mask(ast.NodeTransformer):
    def visit_Constant(self,n): return ast.copy_location(ast.Constant(value=None),n)
def shape(code): return ast.dump(Mask().visit(ast.parse(code)))
hits=[]; builtins.PWNED=lambda *a: hits.append(a) or ''
ALPH=["'",'"',"\\","(",")","+","{","}","%","#",",",":","\\n","\\x41","\\N{BULLET}","\\u0027","PWNED()","str(","[","]"," or ","'''",'"""']
TEMPL=["'+str(PWNED())+'","\\'+PWNED()+\\'","' if PWNED() else '","'))]) or PWNED() or (((['","{PWNED()}","%(PWNED)s","')) or PWNED() #","\\","\\\\'+PWNED()+'"]
def payload(rnd,q):
    s=rnd.choice(TEMPL) if rnd.random()<0.5 else ''.join(rnd.choice(ALPH) for _ in range(rnd.randint(1,8)))
    return s.replace(q,'')
def prog(rnd,strings):
    it=iter(strings)
    def lit():
        s=next(it); q='"' if '"' not in s else "'"
        return q+s+q
    return f'def e{{ salt: {lit()} splitters: u\n if z == {lit()} or {lit()} != z and z in ({lit()}, ({lit()}, 1)) {{ return {lit()} weighted 1, {lit()} weighted 2 }} else {{ return {lit()} weighted 1 }} }}'
def main(seed,N):
    rnd=random.Random(seed); n=0; bad=0; ex=None
    for _ in range(N):
        strs=[]
        for i in range(8):
            q=rnd.choice('"\'')
            s=payload(rnd,q) if rnd.random()<0.6 else f"h{i}"
            if '"' in s and "'" in s: s=s.replace("'",'')
            strs.append(s)
        twin=[f"s{i}" for i in range(8)]
        a=prog(rnd,strs); b=prog(rnd,twin); n+=1
        try:
            for expose in (False,True):
                ca=PythonCodeGen(parse_source(a),expose_experiment_variant_function=expose).generate()
                cb=PythonCodeGen(parse_source(b),expose_experiment_variant_function=expose).generate()
                if shape(ca)!=shape(cb): raise AssertionError("shape differs")
            if shape(generate_code(a))!=shape(generate_code(b)): raise AssertionError("black shape differs")
            ev=ExperimentEvaluator(a)
            for z in strs+["zz"]: ev(u=1,z=z)
            if hits: raise AssertionError("sentinel called")
        except BaseException as e:
            bad+=1; hits.clear()
            if ex is None: ex=(type(e).__name__,str(e)[:80],a)
    print("programs",n,"flagged",bad,ex)
main(int(sys.argv[1]),int(sys.argv[2]))
