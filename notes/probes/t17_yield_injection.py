import sys, threading, random, time, os
from pyab_experiment.experiment_evaluator import ExperimentEvaluator
from pyab_experiment.utils.wraper_functions import parse_source
import pyab_experiment
root=os.path.dirname(pyab_experiment.__file__)
mon=sys.monitoring; TOOL=3
mon.use_tool_id(TOOL,"yield")
E=mon.events
cnt=[0]; switches=[0]; last=[None]; inparse={}
overlap=[0]
rl=random.Random(7)
def on_line(code, line):
    cnt[0]+=1
    t=threading.get_ident()
    if last[0] is not None and last[0]!=t: switches[0]+=1
    last[0]=t
    if (cnt[0] & 7)==0: time.sleep(0)
def on_start(code, off):
    if code.co_filename.startswith(root):
        mon.set_local_events(TOOL, code, E.LINE)
    return mon.DISABLE
mon.register_callback(TOOL,E.PY_START,on_start)
mon.register_callback(TOOL,E.LINE,on_line)
mon.set_events(TOOL,E.PY_START)
sys.setswitchinterval(1e-6)
srcs=[]
for i in range(6):
    srcs.append(f'''/* block {i} */
 def exp{i}{{ /* c */
 salt: "s{i}" /* d
     multi */ splitters: uid, f{i}
  if a{i} == {i} and not b in (1,2,{i}) or c >= {i}.5 {{ /* x */
  return "g{i}a" weighted {i+1}, "g{i}b" weighted 2 }}
  else if a{i} < 0 {{ return "n{i}" weighted 1 }} // trailing
  else {{ return "d{i}" weighted 1, "e{i}" weighted 3 }} }}''')
inputs=[dict(uid=u, **{f"f{i}":u*3 for i in range(6)}, **{f"a{i}":u%7 for i in range(6)}, b=u%5, c=u%9) for u in range(10)]
ref={}
for i,s in enumerate(srcs):
    ev=ExperimentEvaluator(s); ref[i]=[ev(**inp) for inp in inputs]
errs=[]
active=[0]; maxactive=[0]
def worker(tid):
    rnd=random.Random(tid)
    for it in range(30):
        i=rnd.randrange(6)
        try:
            active[0]+=1; maxactive[0]=max(maxactive[0],active[0])
            ev=ExperimentEvaluator(srcs[i])
            active[0]-=1
            got=[ev(**inp) for inp in inputs]
            if got!=ref[i]: errs.append(("res",tid,i))
        except Exception as e:
            errs.append(("exc",tid,i,type(e).__name__,str(e)[:80]))
t0=time.time(); c0=cnt[0]
ths=[threading.Thread(target=worker,args=(t,)) for t in range(8)]
[t.start() for t in ths];[t.join() for t in ths]
print("errors",len(errs),errs[:3],"time",round(time.time()-t0,1),"line events",cnt[0]-c0,"thread switches between events",switches[0],"max concurrent constructions",maxactive[0])
