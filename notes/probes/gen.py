"""throwaway prototype: reference AST, renderer, interpreter, generator"""
import random, hashlib
from fractions import Fraction as F
from decimal import Decimal

class Unroutable(Exception): pass

# ref AST: program = dict(id, salt, splitters, cond)
# cond = ('ret', [(lit, weight_text)], label_index) | ('if', [(pred, cond), ...], else_cond_or_None)
# pred = ('cmp', term, op, term) | ('not', p) | ('and', p, q) | ('or', p, q) | ('paren', p)
# term = ('id', name) | ('lit', value) | ('tup', [term...])

OPS = ['==','!=','>','<','>=','<=','in','not in']

def r_str(s, rnd):
    if '"' not in s and (("'" in s) or rnd.random()<0.5): return '"%s"'%s
    assert "'" not in s
    return "'%s'"%s

def r_lit(v, rnd):
    if isinstance(v,str): return r_str(v,rnd)
    if isinstance(v,tuple) and v and v[0]=='num':  # ('num', text)
        return v[1]
    raise TypeError(v)

def r_term(t, rnd):
    if t[0]=='id': return t[1]
    if t[0]=='lit': return r_lit(t[1], rnd)
    if t[0]=='tup': return '(' + ', '.join(r_term(x,rnd) for x in t[1]) + ')'

def r_pred(p, rnd):
    k=p[0]
    if k=='cmp': return f"{r_term(p[1],rnd)} {p[2]} {r_term(p[3],rnd)}"
    if k=='not': return f"not {r_pred(p[1],rnd)}"
    if k=='paren': return f"({r_pred(p[1],rnd)})"
    return f"{r_pred(p[1],rnd)} {k} {r_pred(p[2],rnd)}"

def r_cond(c, rnd, ind=1):
    pad='  '*ind
    if c[0]=='ret':
        return pad+'return '+', '.join(f"{r_lit(l,rnd)} weighted {w}" for l,w in c[1])+'\n'
    out=''
    for i,(p,b) in enumerate(c[1]):
        kw='if' if i==0 else rnd.choice(['else if','else  if','else\nif'])
        out+=f"{pad}{kw} {r_pred(p,rnd)} {{\n{r_cond(b,rnd,ind+1)}{pad}}}\n"
    if c[2] is not None:
        out+=f"{pad}else {{\n{r_cond(c[2],rnd,ind+1)}{pad}}}\n"
    return out

def render(prog, rnd):
    s=f"def {prog['id']} {{\n"
    if prog['salt'] is not None: s+=f"  salt: {r_str(prog['salt'],rnd)}\n"
    if prog['splitters']: s+=f"  splitters: {', '.join(prog['splitters'])}\n"
    s+=r_cond(prog['cond'],rnd)+"}\n"
    return s

# ---- semantics
def litval(v):
    if isinstance(v,str): return v
    t=v[1]
    neg=t.startswith('-'); t2=t.lstrip('-').strip()
    x=float(t2) if '.' in t2 else int(t2)
    return -x if neg else x

def ev_term(t, env):
    if t[0]=='id': return env[t[1]]
    if t[0]=='lit': return litval(t[1])
    return tuple(ev_term(x,env) for x in t[1])

def ev_pred(p, env):
    k=p[0]
    if k=='cmp':
        a=ev_term(p[1],env); b=ev_term(p[3],env); op=p[2]
        return {'==':lambda:a==b,'!=':lambda:a!=b,'>':lambda:a>b,'<':lambda:a<b,'>=':lambda:a>=b,'<=':lambda:a<=b,'in':lambda:a in b,'not in':lambda:a not in b}[op]()
    if k=='not': return not ev_pred(p[1],env)
    if k=='paren': return ev_pred(p[1],env)
    if k=='and': return ev_pred(p[1],env) and ev_pred(p[2],env)
    if k=='or': return ev_pred(p[1],env) or ev_pred(p[2],env)

def route(c, env):
    if c[0]=='ret': return c
    for p,b in c[1]:
        if ev_pred(p,env): return route(b,env)
    if c[2] is not None: return route(c[2],env)
    raise Unroutable()

def position(prog, env):
    key=(prog['salt'] or '')+''.join(str(env[n]) for n in sorted(prog['splitters']))
    return int(hashlib.md5(key.encode('utf-8')).hexdigest()[:8],16)

def allowed_groups(ret, k):
    ws=[F(Decimal(w)) for _,w in ret[1]]; W=sum(ws)
    out=[]; c=F(0)
    for i,w in enumerate(ws):
        lo=c/W*2**32; c+=w; hi=c/W*2**32
        if w>0 and lo<=k+1 and hi>k-1: out.append(i)
    # exact
    return out
