"""throwaway prototype of the independent recogniser"""
import re
class Reject(Exception): pass
class Ambiguous(Exception): pass
KW={'def':'DEF','salt':'SALT','splitters':'SPLITTERS','if':'IF','else':'ELSE','weighted':'WEIGHTED','return':'RETURN','and':'AND','or':'OR','not':'NOT','in':'IN'}
def tokenize(s):
    i=0; n=len(s); out=[]
    while i<n:
        c=s[i]
        if c.isspace(): i+=1; continue
        if s.startswith('//',i):
            j=s.find('\n',i); i=n if j<0 else j; continue
        if s.startswith('/*',i):
            j=s.find('*/',i+2)
            if j<0: raise Reject('unterminated block comment')
            if '/*' in s[i+2:j]: raise Ambiguous('nested comment opener')
            i=j+2; continue
        if c in '"\'':
            j=i+1
            while j<n and s[j]!=c and s[j]!='\n': j+=1
            if j>=n or s[j]!=c: raise Reject('unterminated string')
            out.append(('STR',s[i+1:j])); i=j+1; continue
        m=re.compile(r'[A-Za-z_][A-Za-z0-9_]*').match(s,i)
        if m:
            w=m.group()
            if w=='elseif': raise Ambiguous('elseif')
            if w=='else':
                m2=re.compile(r'\s*if(?![A-Za-z0-9_])').match(s,m.end())
                if m2: out.append(('ELIF','else if')); i=m2.end(); continue
            if w=='not':
                m2=re.compile(r'\s+in(?![A-Za-z0-9_])').match(s,m.end())
                if m2: out.append(('NOT_IN','not in')); i=m2.end(); continue
            out.append((KW[w],w) if w in KW else ('ID',w)); i=m.end(); continue
        m=re.compile(r'\d+\.\d+').match(s,i)
        if m: out.append(('FLOAT',m.group())); i=m.end(); continue
        m=re.compile(r'\d+').match(s,i)
        if m: out.append(('INT',m.group())); i=m.end(); continue
        for op,t in (('==','EQ'),('!=','NE'),('>=','GE'),('<=','LE'),('>','GT'),('<','LT'),('(','LP'),(')','RP'),('-','MINUS'),(',','COMMA'),(':','COLON'),('{','LB'),('}','RB')):
            if s.startswith(op,i): out.append((t,op)); i+=len(op); break
        else: raise Reject(f'illegal char {c!r}')
    return out
class P:
    def __init__(s,toks): s.t=toks; s.i=0
    def pk(s,k=0): return s.t[s.i+k][0] if s.i+k<len(s.t) else 'EOF'
    def eat(s,ty):
        if s.pk()!=ty: raise Reject(f'expected {ty} got {s.pk()} at {s.i}')
        v=s.t[s.i][1]; s.i+=1; return v
    def program(s):
        s.eat('DEF'); s.eat('ID'); s.eat('LB')
        if s.pk()=='SALT': s.eat('SALT'); s.eat('COLON'); s.eat('STR')
        if s.pk()=='SPLITTERS':
            s.eat('SPLITTERS'); s.eat('COLON'); s.eat('ID')
            while s.pk()=='COMMA': s.eat('COMMA'); s.eat('ID')
        s.cond(); s.eat('RB'); s.eat('EOF') if False else None
        if s.pk()!='EOF': raise Reject('trailing tokens')
    def cond(s):
        if s.pk()=='RETURN':
            s.eat('RETURN'); s.group()
            while s.pk()=='COMMA': s.eat('COMMA'); s.group()
            return
        s.eat('IF'); s.pred(); s.eat('LB'); s.cond(); s.eat('RB')
        while s.pk()=='ELIF': s.eat('ELIF'); s.pred(); s.eat('LB'); s.cond(); s.eat('RB')
        if s.pk()=='ELSE': s.eat('ELSE'); s.eat('LB'); s.cond(); s.eat('RB')
    def group(s):
        s.literal(); s.eat('WEIGHTED')
        if s.pk() in('INT','FLOAT'): s.i+=1
        else: raise Reject('weight')
    def literal(s):
        if s.pk()=='MINUS': s.i+=1; 
        elif s.pk()=='STR': s.i+=1; return
        if s.pk() in('INT','FLOAT'): s.i+=1
        else: raise Reject('literal')
    def pred(s):
        s.andp()
        while s.pk()=='OR': s.i+=1; s.andp()
    def andp(s):
        s.notp()
        while s.pk()=='AND': s.i+=1; s.notp()
    def notp(s):
        if s.pk()=='NOT': s.i+=1; return s.notp()
        save=s.i
        try:
            s.term()
            if s.pk() in('EQ','NE','GE','LE','GT','LT','IN','NOT_IN'): s.i+=1
            else: raise Reject('op')
            s.term(); return
        except Reject:
            s.i=save
        s.eat('LP'); s.pred(); s.eat('RP')
    def term(s):
        if s.pk()=='ID': s.i+=1; return
        if s.pk()=='LP':
            s.i+=1; s.term()
            while s.pk()=='COMMA': s.i+=1; s.term()
            s.eat('RP'); return
        s.literal()
def accepts(text):
    """True / False / None(ambiguous)"""
    try:
        toks=tokenize(text); P(toks).program(); return True
    except Ambiguous: return None
    except Reject: return False
