import random, sys, io, contextlib
from pyab_experiment.experiment_evaluator import ExperimentEvaluator
V=['def a{ splitters: u\n return "x" weighted 1, "y" weighted 1 }',
   'def a{ splitters: u\n return "x" weighted 1, "y" weighted 3 }',
   'def a{ splitters: u\n return "p" weighted 1, "q" weighted 1 }',
   'def b{ salt: "s" splitters: u\n return "x" weighted 1, "y" weighted 1 }',
   'def a{ splitters: u /* c */\n return "x" weighted 1,\n "y" weighted 1 }',
   'def c{ splitters: u, v\n if z == 1 { return "x" weighted 1, "y" weighted 1 } else { return "m" weighted 2, "n" weighted 1 } }']
I=['def a{ splitters: u\n return "x" weighted 1, "y" weighted .5 }','def a{ splitters: u\n return "x" weighted 1','def a{ return "x" weighted 1 } junk','def a{ return "x" weighted 1 } def b{ return "y" weighted 1 }','','def a{ return "x weighted 1 }','dfe a{ return "x" weighted 1 }','def a{ splitters: u\n return "x" 1 }']
panel=[dict(u=i,v=i*7,z=i%2) for i in range(12)]
ref={}
for t in V:
    ev=ExperimentEvaluator(t); ref[t]=[ev(**p) for p in panel]
def quiet(f):
    b=io.StringIO()
    with contextlib.redirect_stdout(b), contextlib.redirect_stderr(b): return f()
bad=[]
def run(seed):
    rnd=random.Random(seed); evs={}; model={}; hist=[]
    for step in range(40):
        op=rnd.choice(['new','rec','rec','rec','same','repeat'])
        i=rnd.randrange(3)
        if op=='new' or i not in evs:
            t=rnd.choice(V+I) ; hist.append(('new',i,t[:25]))
            try:
                e=quiet(lambda: ExperimentEvaluator(t)); ok=True
            except Exception: ok=False
            if (t in V)!=ok: bad.append((seed,hist[-3:],'new validity')); return
            if ok: evs[i]=e; model[i]=t
        else:
            if op=='same': t=model[i]
            elif op=='repeat' and hist and hist[-1][0]=='rec': t=hist[-1][3]
            else: t=rnd.choice(V+I)
            hist.append(('rec',i,t[:25],t))
            try: quiet(lambda: evs[i].recompile(t)); ok=True
            except Exception: ok=False
            if (t in V)!=ok: bad.append((seed,[h[:3] for h in hist[-4:]],'recompile validity',ok)); return
            if ok: model[i]=t
        for j,e in evs.items():
            got=[e(**p) for p in panel]
            if got!=ref[model[j]]: bad.append((seed,[h[:3] for h in hist[-4:]],'state',j)); return
for s in range(int(sys.argv[1])): run(s)
print("histories",sys.argv[1],"bad",len(bad)); print(bad[:3])
