import random, sys, collections, io, contextlib
sys.path.insert(0,'/tmp/scratch/proto')
from gen import *; from drive import G
from refparse import accepts, tokenize
from pyab_experiment.experiment_evaluator import ExperimentEvaluator
from pyab_experiment.utils.wraper_functions import parse_source
JUNK=['=','!','.',';','@','#','$','%','^','&','*','+','[',']','|','\\','~','`','?','/','é','"','\'']
TOK=['def','{','}','(',')',',',':','-','==','>','<','>=','<=','!=','in','not in','not','and','or','if','else','else if','return','weighted','salt','splitters','x','1','1.5','"s"']
def spans(text):
    # crude token spans via regex for mutation points (outside of correctness path)
    import re
    return [m.span() for m in re.finditer(r'"[^"\n]*"|\'[^\'\n]*\'|[A-Za-z_]\w*|\d+\.\d+|\d+|==|!=|>=|<=|[-(){},:<>]',text)]
def mutate(text,rnd):
    sp=spans(text); k=rnd.choice(['del','dup','swap','ins','junk','prefix','suffix','concat','trunc'])
    if k=='del': a,b=rnd.choice(sp); return k,text[:a]+' '+text[b:]
    if k=='dup': a,b=rnd.choice(sp); return k,text[:b]+' '+text[a:b]+text[b:]
    if k=='swap':
        i=rnd.randrange(len(sp)-1); (a,b),(c,d)=sp[i],sp[i+1]; return k,text[:a]+text[c:d]+text[b:c]+text[a:b]+text[d:]
    if k=='ins': a,b=rnd.choice(sp); return k,text[:a]+' '+rnd.choice(TOK)+' '+text[a:]
    if k=='junk':
        a,b=rnd.choice(sp); p=rnd.choice([a,b]); return k,text[:p]+rnd.choice(JUNK)+text[p:]
    if k=='prefix': return k,rnd.choice(['junk ','x ','1 ','} ','def ','def x { return 1 weighted } ','"s" '])+text
    if k=='suffix': return k,text+rnd.choice([' junk',' }',' 1',' def',' return',' /* open',' // ok\n x'])
    if k=='concat': return k,text+'\n'+text
    if k=='trunc': a,b=rnd.choice(sp); return k,text[:a]
def main(seed,N):
    rnd=random.Random(seed); stats=collections.Counter(); bad=collections.Counter(); ex={}
    for _ in range(N):
        g=G(rnd); prog=g.prog(); src=render(prog,rnd)
        assert accepts(src) is True, src
        for _ in range(10):
            k,m=mutate(src,rnd); a=accepts(m)
            stats[(k,a)]+=1
            buf=io.StringIO()
            with contextlib.redirect_stdout(buf), contextlib.redirect_stderr(buf):
                try: ExperimentEvaluator(m); impl=True
                except BaseException as e: impl=False; et=type(e).__name__
            if a is False and impl:
                bad[k]+=1; ex.setdefault(k,m)
            if a is True and not impl:
                bad[('valid-rejected',k,et)]+=1; ex.setdefault(('valid-rejected',k,et),m)
    print(sorted(stats.items()))
    for k,v in bad.items(): print("BAD",k,v); print(ex[k])
main(int(sys.argv[1]),int(sys.argv[2]))
