import random, sys
from fractions import Fraction as F
import pyab_experiment.binning.binning as B
from decimal import Decimal
rnd=random.Random(1)
def exact_group(k, ws):
    W=sum(ws); x=F(k,2**32)*W; c=F(0)
    for i,w in enumerate(ws):
        c+=w
        if x<c: return i
    raise AssertionError
inj=[None]
orig=B.deterministic_proba
B.deterministic_proba=lambda s: inj[0]/2**32
def real(k, fl):
    inj[0]=k
    return B.deterministic_choice("x", list(range(len(fl))), fl)
mism_exact=0; mism_tol=0; n=0; worst=[]
for trial in range(20000):
    ng=rnd.choice([1,2,3,5,8,64])
    kind=rnd.choice(["int","dec","mix","huge"])
    txt=[]
    for _ in range(ng):
        if rnd.random()<0.2: txt.append("0")
        elif kind=="int": txt.append(str(rnd.randint(1,20)))
        elif kind=="dec": txt.append(f"{rnd.randint(0,9)}.{rnd.randint(0,999):03d}")
        elif kind=="huge": txt.append(rnd.choice(["1000000000","0.000000001","1","3.5","999999999.999999999"]))
        else: txt.append(rnd.choice([str(rnd.randint(1,9)), f"0.{rnd.randint(1,9)}"]))
    ws=[F(Decimal(t)) for t in txt]
    if sum(ws)==0: continue
    fl=[float(t) if "." in t else float(int(t)) for t in txt]
    W=sum(ws); c=F(0); ks={0,1,2**32-1,2**32-2, rnd.randrange(2**32)}
    for w in ws:
        c+=w
        b=c/W*2**32
        fb=int(b)
        for d in (-2,-1,0,1,2):
            if 0<=fb+d<2**32: ks.add(fb+d)
    for k in ks:
        n+=1
        g=real(k,fl); e=exact_group(k,ws)
        if ws[g]==0: print("ZERO WEIGHT SELECTED",txt,k); 
        if g!=e:
            mism_exact+=1
            lo=sum(ws[:g])/W*2**32; hi=sum(ws[:g+1])/W*2**32
            if not (ws[g]>0 and lo<=k+1 and hi>k-1):
                mism_tol+=1; worst.append((txt,k,g,e))
print(n,"exact mismatches",mism_exact,"beyond tolerance",mism_tol,worst[:3])
