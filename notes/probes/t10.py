import random, sys, hashlib
from fractions import Fraction as F
from decimal import Decimal
from pyab_experiment.experiment_evaluator import ExperimentEvaluator
def mk(vec,labels=None,salt="s"):
    labels=labels or [str(i) for i in range(len(vec))]
    return ExperimentEvaluator(f'def e{{ salt: "{salt}" splitters: uid\n return '+", ".join(f'"{l}" weighted {w}' for l,w in zip(labels,vec))+' }')
def pos(uid,salt="s"): return int(hashlib.md5((salt+str(uid)).encode()).hexdigest()[:8],16)
rnd=random.Random(1)
viol=0; pairs=0; moved=0; units=0; near=0
def bounds(vec):
    ws=[F(Decimal(x)) for x in vec]; W=sum(ws); c=F(0); out=[]
    for w in ws: c+=w; out.append(c/W)
    return out
for trial in range(60):
    n=rnd.choice([2,2,3,4,6])
    kind=rnd.choice(['int','dec'])
    v=[str(rnd.randint(0,20)) if kind=='int' else f"{rnd.randint(0,9)}.{rnd.randint(0,99):02d}" for _ in range(n)]
    if sum(F(Decimal(x)) for x in v)==0: continue
    # move mass from later j to earlier i
    v2=list(v); i=rnd.randrange(n-1); j=rnd.randrange(i+1,n)
    wj=F(Decimal(v2[j])); d=wj*rnd.choice([F(1,10),F(1,2),1])
    if kind=='int': d=F(int(d))
    def fmt(x): 
        return str(int(x)) if x.denominator==1 else f"{float(x):.6f}"
    v2[j]=fmt(F(Decimal(v2[j]))-d); v2[i]=fmt(F(Decimal(v2[i]))+d)
    b1=bounds(v); b2=bounds(v2)
    if not all(y>=x for x,y in zip(b1,b2)): continue   # prefix shares non-decreasing
    e1=mk(v); e2=mk(v2); pairs+=1
    for u in range(3000):
        uid=rnd.choice([u, f"user{u}", u*1000003]); units+=1
        a=int(e1(uid=uid)); b=int(e2(uid=uid))
        if a!=b: moved+=1
        if b>a:
            k=pos(uid); 
            close=any(abs(x*2**32-k)<=1 for x in b1+b2)
            if close: near+=1
            else: viol+=1; print("VIOL",v,v2,uid,a,b,k)
print("pairs",pairs,"units",units,"moved",moved,"later-moves",viol,"near-boundary-excused",near)
