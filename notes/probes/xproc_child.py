import sys, json, locale, os
if os.environ.get("DO_SETLOCALE"): 
    try: locale.setlocale(locale.LC_ALL, "")
    except Exception as e: pass
from pyab_experiment.experiment_evaluator import ExperimentEvaluator
corpus=json.loads(open(sys.argv[1],'rb').read().decode('utf-8'))
out=[]
for item in corpus:
    ev=ExperimentEvaluator(item['src'])
    rs=[]
    for inp in item['inputs']:
        try: rs.append(ev(**inp))
        except Exception as e: rs.append('EXC:'+type(e).__name__)
    out.append(rs)
sys.stdout.write(json.dumps(out,ensure_ascii=True))
