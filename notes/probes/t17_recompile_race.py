import sys, threading, random, time
from pyab_experiment.experiment_evaluator import ExperimentEvaluator
sys.setswitchinterval(1e-6)
A='def a{ /* A */ splitters: u\n if z == 1 { return "x" weighted 1, "y" weighted 1 } else { return "p" weighted 1 } }'
B='def b{ salt: "q" splitters: u, v /* B */\n return "m" weighted 2, "n" weighted 1 }'
BAD='def b{ return "m" weighted }'
panel=[dict(u=i,v=i*3,z=i%2) for i in range(40)]
ra=[ExperimentEvaluator(A)(**p) for p in panel]; rb=[ExperimentEvaluator(B)(**p) for p in panel]
ev=ExperimentEvaluator(A); stop=[False]; errs=[]; seen={'A':0,'B':0,'both_equal':0}; flips=[0]
def recompiler():
    i=0
    while not stop[0]:
        i+=1
        try: ev.recompile(B if i%2 else A); flips[0]+=1
        except Exception as e: errs.append(('rec',type(e).__name__))
        if i%5==0:
            try: ev.recompile(BAD); errs.append(('bad accepted',))
            except Exception: pass
def caller(tid):
    rnd=random.Random(tid)
    while not stop[0]:
        j=rnd.randrange(len(panel))
        try: r=ev(**panel[j])
        except Exception as e: errs.append(('call',type(e).__name__,str(e)[:60])); continue
        if r==ra[j]: seen['A']+=1
        elif r==rb[j]: seen['B']+=1
        else: errs.append(('mix',r,ra[j],rb[j]))
ths=[threading.Thread(target=recompiler)]+[threading.Thread(target=caller,args=(t,)) for t in range(6)]
[t.start() for t in ths]; time.sleep(8); stop[0]=True; [t.join() for t in ths]
print("flips",flips[0],"seen",seen,"errors",len(errs),errs[:3])
