import math
def gammaq(a,x):
    """regularised upper incomplete gamma Q(a,x)"""
    if x<=0: return 1.0
    if x<a+1:
        ap=a; s=1/a; d=s
        for _ in range(100000):
            ap+=1; d*=x/ap; s+=d
            if abs(d)<abs(s)*1e-16: break
        return max(0.0,1-s*math.exp(-x+a*math.log(x)-math.lgamma(a)))
    tiny=1e-300; b=x+1-a; c=1/tiny; d=1/b; h=d
    for i in range(1,100000):
        an=-i*(i-a); b+=2; d=an*d+b
        if abs(d)<tiny: d=tiny
        c=b+an/c
        if abs(c)<tiny: c=tiny
        d=1/d; de=d*c; h*=de
        if abs(de-1)<1e-16: break
    return math.exp(-x+a*math.log(x)-math.lgamma(a))*h
def chi2_sf(x,df): return gammaq(df/2,x/2)
if __name__=="__main__":
    for x,df in [(3.84,1),(40,1),(60,3),(100,9),(20,10),(5,4),(300,200),(1000,900),(45,1)]:
        print(x,df,chi2_sf(x,df))
