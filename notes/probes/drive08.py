import random, sys, collections, re
sys.path.insert(0,'/tmp/scratch/proto')
from gen import *; from drive import G
from refparse import tokenize
from pyab_experiment.utils.wraper_functions import parse_source
from pyab_experiment.codegen.python.python_generator import PythonCodeGen
WORDS=['return','"q"',"'q'",'if','else','weighted','//','*','**','/ *','"','\'','é','{','}','not in','x == 1']
def comment_body(rnd, block):
    s=' '.join(rnd.choice(WORDS) for _ in range(rnd.randint(0,5)))
    if block:
        s=s.replace('*/','* /').replace('/*','/ *')
        if rnd.random()<0.3: s+='\n more '+rnd.choice(WORDS).replace('*/','').replace('/*','')
        s=s.replace('*/','* /').replace('/*','/ *')
        if s.endswith('/'): s+=' '
        if s.startswith('/'): s=' '+s
    return s
def trivia(rnd):
    k=rnd.choice(['sp','tab','nl','crlf','ff','line','block','block2','empty_block','stars'])
    if k=='sp': return ' '*rnd.randint(1,3)
    if k=='tab': return '\t'
    if k=='nl': return '\n'*rnd.randint(1,2)
    if k=='crlf': return '\r\n'
    if k=='ff': return '\f'
    if k=='line': return '//'+comment_body(rnd,False).replace('\n',' ')+'\n'
    if k=='block': return '/*'+comment_body(rnd,True)+'*/'
    if k=='block2': return '/*'+comment_body(rnd,True)+'*/ /*'+comment_body(rnd,True)+'*/'
    if k=='empty_block': return '/**/'
    if k=='stars': return '/***'+comment_body(rnd,True)+'***/'
def tok_text(t,rnd):
    ty,v=t
    if ty=='STR': 
        q='"' if '"' not in v else "'"
        return q+v+q
    if ty=='ELIF': return 'else'+rnd.choice([' ','  ','\n','\t',' \n '])+'if'
    if ty=='NOT_IN': return 'not'+rnd.choice([' ','  ','\n','\t'])+'in'
    return v
def wordy(c): return c.isalnum() or c=='_'
def render_variant(toks,rnd,dense):
    out=''
    for i,t in enumerate(toks):
        txt=tok_text(t,rnd)
        n=rnd.randint(0,3) if dense else 1
        tr=''.join(trivia(rnd) for _ in range(n)) if (i>0 or rnd.random()<0.5) else ''
        if i>0 and tr=='' and wordy(out[-1]) and wordy(txt[0]): tr=' '
        # '-' followed by nothing special; '/' never a token
        out+=tr+txt
    if rnd.random()<0.7: out+=''.join(trivia(rnd) for _ in range(rnd.randint(1,2)))
    if rnd.random()<0.3: out+='// eof comment no newline'
    return out
def main(seed,N):
    rnd=random.Random(seed); bad=collections.Counter(); ex={}; n=0
    for _ in range(N):
        g=G(rnd); prog=g.prog(); src=render(prog,rnd); toks=tokenize(src)
        base=' '.join(tok_text(t,random.Random(0)) for t in toks)
        try:
            a0=parse_source(base); c0=PythonCodeGen(a0,expose_experiment_variant_function=False).generate()
        except Exception as e:
            bad[('base',type(e).__name__)]+=1; ex.setdefault(('base',type(e).__name__),base); continue
        for _ in range(5):
            v=render_variant(toks,rnd,True); n+=1
            assert tokenize(v)==toks, (v,)
            try:
                a=parse_source(v)
                if a!=a0: bad['ast']+=1; ex.setdefault('ast',v)
                elif PythonCodeGen(a,expose_experiment_variant_function=False).generate()!=c0: bad['code']+=1
            except Exception as e:
                k=('exc',type(e).__name__,str(e)[:60]); bad[k]+=1; ex.setdefault(k,v)
    print("variants",n,dict(bad))
    for k,v in ex.items(): print(k,'\n',v[:600],'\n-----')
main(int(sys.argv[1]),int(sys.argv[2]))
