import sys

from pyabv.run import main

sys.exit(main(sys.argv[1:]))
