"""Child of C14: writes the text generate_code produces (both layouts) for every program of a corpus, from a fresh interpreter
(other hash seed).  The text is then loaded and run by the parent - generated modules are written in one process (a build
step) and executed in another.

usage: python -m pyabv.gen_child <corpus.json> <out.json>"""

import json
import sys


def main():
    corpus_path, out_path = sys.argv[1], sys.argv[2]
    from pyabv.impl import impl
    from pyabv.run import assert_tree

    assert_tree()
    im = impl()
    with open(corpus_path, encoding="ascii") as f:
        texts = json.load(f)["programs"]
    out = []
    for text in texts:
        row = {}
        for layout, expose in (("nested", False), ("exposed", True)):
            try:
                row[layout] = im.generate_text(text, expose)
            except Exception as e:  # noqa: BLE001
                row[layout + "_error"] = [type(e).__name__, str(e)[:160]]
        out.append(row)
    with open(out_path, "w", encoding="ascii") as f:
        json.dump({"generated": out, "hash_of_a": hash("a")}, f, ensure_ascii=True)


if __name__ == "__main__":
    main()
