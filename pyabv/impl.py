"""Thin adapter to the code under test (imported lazily, always from the working tree) and the
probes that are applied to it from outside (DESIGN.md 2.4).  Nothing here edits the repository.
"""

from __future__ import annotations

import contextlib
import io
import sys


class Impl:
    def __init__(self):
        import pyab_experiment.binning.binning as binning
        import pyab_experiment.experiment_evaluator as ee
        import pyab_experiment.utils.wraper_functions as wf
        from pyab_experiment.codegen.python.custom_exceptions import ExperimentConditionalFailedError
        from pyab_experiment.codegen.python.python_generator import PythonCodeGen

        self.binning = binning
        self.ee = ee
        self.wf = wf
        self.Unroutable = ExperimentConditionalFailedError
        self.PythonCodeGen = PythonCodeGen
        self.Evaluator = ee.ExperimentEvaluator

    # -- construction / calls with chatter captured -------------------------------------------
    def construct(self, text):
        """-> ('ok', evaluator) | ('exc', type_name, message)"""
        buf = io.StringIO()
        try:
            with contextlib.redirect_stdout(buf), contextlib.redirect_stderr(buf):
                ev = self.Evaluator(text)
            return ("ok", ev)
        except RecursionError as e:
            return ("exc", "RecursionError", str(e)[:200])
        except Exception as e:  # noqa: BLE001 - outcome classes are what the oracles judge
            return ("exc", type(e).__name__, str(e)[:200])

    def parse(self, text):
        """-> ('ok', ast) | ('none',) | ('exc', type_name, message)"""
        buf = io.StringIO()
        try:
            with contextlib.redirect_stdout(buf), contextlib.redirect_stderr(buf):
                ast = self.wf.parse_source(text)
            return ("ok", ast) if ast is not None else ("none",)
        except Exception as e:  # noqa: BLE001
            return ("exc", type(e).__name__, str(e)[:200])

    def call(self, fn, env):
        """-> ('ok', value) | ('unroutable',) | ('exc', type_name, message)"""
        try:
            return ("ok", fn(**env))
        except self.Unroutable:
            return ("unroutable",)
        except Exception as e:  # noqa: BLE001
            return ("exc", type(e).__name__, str(e)[:200])

    def generate_text(self, text, expose):
        buf = io.StringIO()
        with contextlib.redirect_stdout(buf), contextlib.redirect_stderr(buf):
            return self.wf.generate_code(text, expose)

    def raw_codegen(self, text, expose):
        buf = io.StringIO()
        with contextlib.redirect_stdout(buf), contextlib.redirect_stderr(buf):
            ast = self.wf.parse_source(text)
            return self.PythonCodeGen(ast, expose_experiment_variant_function=expose).generate()


_impl = None


def impl() -> Impl:
    global _impl
    if _impl is None:
        _impl = Impl()
    return _impl


# ---------------------------------------------------------------------------------------------
# P2 / P3: counting wrappers rebound on module attributes


class ChoiceProbe:
    """P2: records (key, population, weights, result) handed to deterministic_choice by generated
    code running inside an ExperimentEvaluator (resolved through experiment_evaluator globals) and
    by exec'd generate_code text (resolved through binning at exec time)."""

    def __init__(self, keep=1):
        self.calls = 0
        self.last = None
        self.keep = keep
        self.log = []

    def __enter__(self):
        im = impl()
        self._orig_ee = getattr(im.ee, "deterministic_choice", None)
        self._orig_bin = im.binning.deterministic_choice
        real = self._orig_bin

        def wrapper(input_id, population, weights=None, *, cum_weights=None):
            r = real(input_id, population, weights, cum_weights=cum_weights)
            self.calls += 1
            self.last = (input_id, population, weights, r)
            if len(self.log) < self.keep:
                self.log.append(self.last)
            return r

        wrapper.__wrapped__ = real
        if self._orig_ee is not None:
            im.ee.deterministic_choice = wrapper
        im.binning.deterministic_choice = wrapper
        return self

    def __exit__(self, *exc):
        im = impl()
        if self._orig_ee is not None:
            im.ee.deterministic_choice = self._orig_ee
        im.binning.deterministic_choice = self._orig_bin
        return False


class ProbaProbe:
    """P3: wraps binning.deterministic_proba.  observe mode records (key, u); with inject set to a
    float the wrapper returns it instead (position substitution, "observe_at" of C03)."""

    def __init__(self):
        self.calls = 0
        self.last_key = None
        self.last_u = None
        self.inject = None

    def __enter__(self):
        im = impl()
        self._orig = im.binning.deterministic_proba
        real = self._orig

        def wrapper(input_string):
            self.calls += 1
            self.last_key = input_string
            if self.inject is not None:
                self.last_u = self.inject
                return self.inject
            u = real(input_string)
            self.last_u = u
            return u

        im.binning.deterministic_proba = wrapper
        return self

    def __exit__(self, *exc):
        impl().binning.deterministic_proba = self._orig
        return False


def add_deps_path():
    """icontract / deal live in /verif/.deps; appended (not prepended) so that nothing there can
    shadow a package of the repository's own environment."""
    import os

    p = os.path.join(os.environ.get("PYABV_HOME", os.path.dirname(os.path.dirname(os.path.abspath(__file__)))), ".deps")
    if p not in sys.path:
        sys.path.append(p)
