"""Thin adapter to the code under test (imported lazily, always from the working tree) and the
probes that are applied to it from outside (DESIGN.md 2.4).  Nothing here edits the repository.
"""

from __future__ import annotations

import contextlib
import io
import os
import sys


class CaseTimeout(BaseException):
    """one compilation used more CPU time than CASE_CPU_BUDGET_S"""


CASE_CPU_BUDGET_S = 30.0  # the slowest compilation on the unchanged tree takes ~0.03 s (0.3 s with black)


@contextlib.contextmanager
def cpu_budget(seconds=CASE_CPU_BUDGET_S):
    """Bounds the CPU time (ITIMER_VIRTUAL: user time of this process, so machine load does not matter) of one
    compilation.  A text whose compilation does not finish within a budget three orders of magnitude above the norm is
    reported as an outcome of that case ("CaseTimeout") instead of stalling the whole shard.  Only armed in the main
    thread (signals are delivered there); the regex engine and the interpreter loop both poll for signals."""
    import signal
    import threading

    if threading.current_thread() is not threading.main_thread():
        yield
        return

    def on_timer(signum, frame):
        raise CaseTimeout(f"more than {seconds} s of CPU time")

    old = signal.signal(signal.SIGVTALRM, on_timer)
    signal.setitimer(signal.ITIMER_VIRTUAL, seconds)
    try:
        yield
    finally:
        signal.setitimer(signal.ITIMER_VIRTUAL, 0)
        signal.signal(signal.SIGVTALRM, old)


@contextlib.contextmanager
def host_settings(kind):
    """Settings a host application may legitimately have changed before it calls the library - all of them thread-local or
    interpreter-wide state the library has no business depending on:
      'decimal'  a short decimal context (3 digits, ROUND_UP), as in money-handling code
      'clock'    a clock running 3600 times faster (time.monotonic / perf_counter / process_time and their _ns forms): an
                 hour passes per second, as seen by anything that budgets its work in wall-clock time
    Restored on exit.  kind None: nothing changes."""
    if kind == "decimal":
        import decimal

        with decimal.localcontext() as c:
            c.prec = 3
            c.rounding = decimal.ROUND_UP
            yield
        return
    if kind == "clock":
        import time

        names = ["monotonic", "perf_counter", "process_time"]
        saved = {n: getattr(time, n) for n in names + [n + "_ns" for n in names]}
        fast = {}
        for n in names:
            fast[n] = (lambda r: lambda: r() * 3600.0)(saved[n])
            fast[n + "_ns"] = (lambda r: lambda: r() * 3600)(saved[n + "_ns"])
        # names the repository's modules bound with `from time import ...` at import time are rebound as well
        rebound = []
        for mname, mod in list(sys.modules.items()):
            if mname.startswith("pyab_experiment") and mod is not None:
                for attr, val in list(vars(mod).items()):
                    for n, orig in saved.items():
                        if val is orig:
                            rebound.append((mod, attr, val))
                            setattr(mod, attr, fast[n])
        try:
            for n in saved:
                setattr(time, n, fast[n])
            yield
        finally:
            for n, f in saved.items():
                setattr(time, n, f)
            for mod, attr, val in rebound:
                setattr(mod, attr, val)
        return
    yield


class Impl:
    def __init__(self):
        import pyab_experiment.binning.binning as binning
        import pyab_experiment.experiment_evaluator as ee
        import pyab_experiment.utils.wraper_functions as wf
        from pyab_experiment.codegen.python.custom_exceptions import ExperimentConditionalFailedError
        from pyab_experiment.codegen.python.python_generator import PythonCodeGen

        self.binning = binning
        self.ee = ee
        self.wf = wf
        self.Unroutable = ExperimentConditionalFailedError
        self.PythonCodeGen = PythonCodeGen
        self.Evaluator = ee.ExperimentEvaluator

    # -- construction / calls with chatter captured -------------------------------------------
    def construct(self, text):
        """-> ('ok', evaluator) | ('exc', type_name, message)"""
        buf = io.StringIO()
        try:
            with cpu_budget(), contextlib.redirect_stdout(buf), contextlib.redirect_stderr(buf):
                ev = self.Evaluator(text)
            return ("ok", ev)
        except CaseTimeout as e:
            self._timeouts = getattr(self, "_timeouts", 0) + 1
            if self._timeouts > 3:
                # the violations recorded so far stand; do not spend the shard's watchdog on more of the same
                raise RuntimeError("more than three compilations exceeded the per-case CPU budget") from None
            return ("exc", "CaseTimeout", str(e))
        except RecursionError as e:
            return ("exc", "RecursionError", str(e)[:200])
        except Exception as e:  # noqa: BLE001 - outcome classes are what the oracles judge
            return ("exc", type(e).__name__, str(e)[:200])

    def parse(self, text):
        """-> ('ok', ast) | ('none',) | ('exc', type_name, message)"""
        buf = io.StringIO()
        try:
            with cpu_budget(), contextlib.redirect_stdout(buf), contextlib.redirect_stderr(buf):
                ast = self.wf.parse_source(text)
            return ("ok", ast) if ast is not None else ("none",)
        except CaseTimeout as e:
            return ("exc", "CaseTimeout", str(e))
        except Exception as e:  # noqa: BLE001
            return ("exc", type(e).__name__, str(e)[:200])

    def call(self, fn, env):
        """-> ('ok', value) | ('unroutable',) | ('exc', type_name, message)"""
        try:
            return ("ok", fn(**env))
        except self.Unroutable:
            return ("unroutable",)
        except Exception as e:  # noqa: BLE001
            return ("exc", type(e).__name__, str(e)[:200])

    def generate_text(self, text, expose):
        buf = io.StringIO()
        with contextlib.redirect_stdout(buf), contextlib.redirect_stderr(buf):
            return self.wf.generate_code(text, expose)

    def raw_codegen(self, text, expose):
        buf = io.StringIO()
        with contextlib.redirect_stdout(buf), contextlib.redirect_stderr(buf):
            ast = self.wf.parse_source(text)
            return self.PythonCodeGen(ast, expose_experiment_variant_function=expose).generate()


_impl = None


def impl() -> Impl:
    global _impl
    if _impl is None:
        _impl = Impl()
    return _impl


# ---------------------------------------------------------------------------------------------
# P2 / P3: counting wrappers rebound on module attributes


class ChoiceProbe:
    """P2: records (key, population, weights, result) handed to deterministic_choice by generated
    code running inside an ExperimentEvaluator (resolved through experiment_evaluator globals) and
    by exec'd generate_code text (resolved through binning at exec time)."""

    def __init__(self, keep=1):
        self.calls = 0
        self.last = None
        self.keep = keep
        self.log = []

    def __enter__(self):
        im = impl()
        self._orig_ee = getattr(im.ee, "deterministic_choice", None)
        self._orig_bin = im.binning.deterministic_choice
        real = self._orig_bin

        def wrapper(*args, **kwargs):
            # signature-agnostic: a refactoring of the call shape must not turn the probe into a fault
            r = real(*args, **kwargs)
            self.calls += 1
            input_id = args[0] if args else kwargs.get("input_id")
            population = args[1] if len(args) > 1 else kwargs.get("population")
            weights = args[2] if len(args) > 2 else kwargs.get("weights", kwargs.get("cum_weights"))
            self.last = (input_id, population, weights, r)
            if len(self.log) < self.keep:
                self.log.append(self.last)
            return r

        wrapper.__wrapped__ = real
        if self._orig_ee is not None:
            im.ee.deterministic_choice = wrapper
        im.binning.deterministic_choice = wrapper
        return self

    def __exit__(self, *exc):
        im = impl()
        if self._orig_ee is not None:
            im.ee.deterministic_choice = self._orig_ee
        im.binning.deterministic_choice = self._orig_bin
        return False


class ProbaProbe:
    """P3: wraps binning.deterministic_proba.  observe mode records (key, u); with inject set to a
    float the wrapper returns it instead (position substitution, "observe_at" of C03)."""

    def __init__(self):
        self.calls = 0
        self.last_key = None
        self.last_u = None
        self.inject = None

    def __enter__(self):
        im = impl()
        self._orig = im.binning.deterministic_proba
        real = self._orig

        def wrapper(*args, **kwargs):
            self.calls += 1
            one_str = len(args) == 1 and not kwargs and isinstance(args[0], str)
            self.last_key = args[0] if one_str else None
            if self.inject is not None:
                self.last_u = self.inject
                return self.inject
            u = real(*args, **kwargs)
            self.last_u = u
            return u

        im.binning.deterministic_proba = wrapper
        return self

    def __exit__(self, *exc):
        impl().binning.deterministic_proba = self._orig
        return False


def add_deps_path():
    """icontract / deal live in /verif/.deps; appended (not prepended) so that nothing there can
    shadow a package of the repository's own environment."""
    import os

    p = os.path.join(os.environ.get("PYABV_HOME", os.path.dirname(os.path.dirname(os.path.abspath(__file__)))), ".deps")
    if p not in sys.path:
        sys.path.append(p)


# ---------------------------------------------------------------------------------------------
# P4: sys.monitoring CALL events raised by code objects compiled from "<string>"


def callable_name(c):
    import functools

    if isinstance(c, functools.partial):
        return "partial-object:" + callable_name(c.func)
    code = getattr(c, "__code__", None)
    if code is not None and getattr(code, "co_filename", None) == "<string>":
        # a function / generator expression defined by generated code itself: its qualified name embeds the
        # experiment's name, which is not structure
        return "function-defined-by-generated-code"
    mod = getattr(c, "__module__", None)
    qn = getattr(c, "__qualname__", None) or getattr(c, "__name__", None)
    if qn is None:
        return "instance-of:" + type(c).__module__ + "." + type(c).__qualname__
    return f"{mod}.{qn}"


class CallMonitor:
    """Records the callables invoked *by generated code* (code objects whose filename is
    "<string>") while a window is open.  The sys.monitoring tool is installed once per process
    (global CALL events; every call site outside generated code switches itself off with DISABLE on
    its first event, so the steady-state cost is confined to generated code)."""

    TOOL = 3  # 0 debugger, 1 coverage, 2 profiler, 5 optimizer are reserved names; 3 is free
    _installed = False
    _current = None

    def __init__(self):
        self.callees = set()
        self.events = 0

    @classmethod
    def _install(cls):
        mon = sys.monitoring
        mon.use_tool_id(cls.TOOL, "pyabv-callmon")

        def on_call(code, offset, callee, arg0):
            if code.co_filename != "<string>":
                return mon.DISABLE
            cur = cls._current
            if cur is not None:
                cur.events += 1
                cur.callees.add(callable_name(callee))

        mon.register_callback(cls.TOOL, mon.events.CALL, on_call)
        mon.set_events(cls.TOOL, mon.events.CALL)
        cls._installed = True

    def __enter__(self):
        if not CallMonitor._installed:
            CallMonitor._install()
        CallMonitor._current = self
        return self

    def __exit__(self, *exc):
        CallMonitor._current = None
        return False


# P5: audit hook (cannot be removed once added: installed once per process, recording toggled)
_audit = {"installed": False, "recording": None}
AUDIT_INTERESTING = (
    "compile", "exec", "import", "open", "os.system", "os.exec", "os.posix_spawn", "os.spawn", "os.fork", "subprocess.Popen",
    "socket.", "ctypes.", "os.remove", "os.rename", "os.mkdir", "os.rmdir", "shutil.", "os.putenv", "os.chdir", "os.listdir",
    "os.scandir", "glob.glob", "urllib.", "ftplib.", "smtplib.", "pty.spawn", "marshal.", "pickle.find_class", "code.__new__",
    "builtins.input", "os.truncate", "os.chmod", "os.kill", "webbrowser.open",
)


def _audit_hook(event, args):
    rec = _audit["recording"]
    if rec is None:
        return
    if event.startswith(AUDIT_INTERESTING):
        detail = ""
        if event == "import":
            detail = ":" + str(args[0])
        elif event == "open":
            detail = ":" + str(args[0])[:80]
        elif event == "compile":
            detail = ":" + str(args[1])[:40]
        rec.append(event + detail)


class AuditRecorder:
    def __enter__(self):
        if not _audit["installed"]:
            sys.addaudithook(_audit_hook)
            _audit["installed"] = True
        self.events = []
        _audit["recording"] = self.events
        return self

    def __exit__(self, *exc):
        _audit["recording"] = None
        return False


class Sentinels:
    """(iii) PWNED planted in builtins, plus recording shadows of print / open: a call whose caller
    frame was compiled from "<string>" (generated code) is recorded."""

    def __init__(self):
        self.hits = []

    def __enter__(self):
        import builtins

        self._saved = {}

        def pwned(*a, **k):
            self.hits.append(("PWNED", repr(a)[:80]))
            return ""

        self._saved["PWNED"] = getattr(builtins, "PWNED", None)
        builtins.PWNED = pwned
        for name in ("print", "open", "input", "breakpoint", "exit", "quit"):
            orig = getattr(builtins, name, None)
            if orig is None:
                continue
            self._saved[name] = orig

            def shadow(*a, __orig=orig, __name=name, **k):
                f = sys._getframe(1)
                if f.f_code.co_filename == "<string>":
                    self.hits.append((__name, repr(a)[:80]))
                    return None
                return __orig(*a, **k)

            setattr(builtins, name, shadow)
        return self

    def __exit__(self, *exc):
        import builtins

        for name, orig in self._saved.items():
            if orig is None:
                if hasattr(builtins, name):
                    delattr(builtins, name)
            else:
                setattr(builtins, name, orig)
        return False


# P7: source-free failpoints - a transient fault raised inside the repository's own functions
class InjectedFault(Exception):
    """the transient fault (an ordinary Exception: what a failing allocation, a full disk behind a logger, a
    cancelled request or a host-side timeout look like to the library)"""


class Failpoint:
    """While the window is open, the k-th Python function *of the repository* that starts executing raises
    InjectedFault instead (sys.monitoring PY_START; nothing in the repository is edited).  k=None only counts.
    After the fault has fired once the window is inert, so clean-up code of the repository runs undisturbed."""

    TOOL = 2  # (the profiler's slot: 3 is the call monitor of C13, 4 the interleaver of C17)
    _claimed = False

    def __init__(self, k=None, exc=InjectedFault):
        import pyab_experiment

        self.root = os.path.dirname(os.path.abspath(pyab_experiment.__file__)) + os.sep
        self.k = k
        self.exc = exc
        self.events = 0
        self.fired_in = None

    def __enter__(self):
        mon = sys.monitoring
        if not Failpoint._claimed:
            mon.use_tool_id(self.TOOL, "pyabv-failpoint")
            Failpoint._claimed = True

        def on_start(code, offset):
            if self.fired_in is not None or not code.co_filename.startswith(self.root):
                return None
            self.events += 1
            if self.k is not None and self.events == self.k:
                self.fired_in = f"{os.path.basename(code.co_filename)}:{code.co_name}"
                raise self.exc("injected transient fault")
            return None

        mon.register_callback(self.TOOL, mon.events.PY_START, on_start)
        mon.set_events(self.TOOL, mon.events.PY_START)
        return self

    def __exit__(self, *exc):
        mon = sys.monitoring
        mon.set_events(self.TOOL, 0)
        mon.register_callback(self.TOOL, mon.events.PY_START, None)
        return False


def at_depth(headroom, fn):
    """calls fn() from a call stack that leaves about `headroom` frames below the recursion limit"""
    n, f = 0, sys._getframe()
    while f is not None:
        n, f = n + 1, f.f_back

    def dive(d):
        return fn() if d <= 0 else dive(d - 1)

    return dive(max(0, sys.getrecursionlimit() - headroom - n - 2))
