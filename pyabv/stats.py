"""Chi-square tail (regularised upper incomplete gamma, log-space) and the cell-merging rule
used by the statistical monitors (C04, C16).  Pure Python; cross-checked against scipy in
selftest (tooling venv)."""

from __future__ import annotations

import math


def log_gamma_q(a: float, x: float) -> float:
    """log Q(a, x), Q = regularised upper incomplete gamma; accurate far into the tail"""
    if x <= 0:
        return 0.0
    lg = math.lgamma(a)
    if x < a + 1:
        # series for P, then Q = 1 - P (only used where Q is not tiny)
        ap, s, d = a, 1.0 / a, 1.0 / a
        for _ in range(100000):
            ap += 1
            d *= x / ap
            s += d
            if abs(d) < abs(s) * 1e-17:
                break
        logp = -x + a * math.log(x) - lg + math.log(s)
        p = math.exp(logp)
        return math.log1p(-p) if p < 1 else -math.inf
    # continued fraction (modified Lentz)
    tiny = 1e-300
    b = x + 1 - a
    c = 1 / tiny
    d = 1 / b
    h = d
    for i in range(1, 100000):
        an = -i * (i - a)
        b += 2
        d = an * d + b
        if abs(d) < tiny:
            d = tiny
        c = b + an / c
        if abs(c) < tiny:
            c = tiny
        d = 1 / d
        delta = d * c
        h *= delta
        if abs(delta - 1) < 1e-16:
            break
    return -x + a * math.log(x) - lg + math.log(h)


def chi2_logsf(stat: float, df: int) -> float:
    return log_gamma_q(df / 2.0, stat / 2.0)


def chi2_sf(stat: float, df: int) -> float:
    return math.exp(chi2_logsf(stat, df))


def merge_small(observed, expected, min_expected=5.0):
    """merge neighbouring cells until every expected count is >= min_expected"""
    obs, exp = [], []
    co = ce = 0.0
    for o, e in zip(observed, expected):
        co += o
        ce += e
        if ce >= min_expected:
            obs.append(co)
            exp.append(ce)
            co = ce = 0.0
    if ce > 0:
        if exp:
            obs[-1] += co
            exp[-1] += ce
        else:
            obs.append(co)
            exp.append(ce)
    return obs, exp


def gof(observed, expected):
    """Pearson goodness of fit -> (stat, df, log_p) or None when fewer than 2 usable cells"""
    pairs = [(o, e) for o, e in zip(observed, expected) if e > 0]
    zero_cells_hit = sum(o for o, e in zip(observed, expected) if e == 0)
    obs, exp = merge_small([p[0] for p in pairs], [p[1] for p in pairs])
    if len(obs) < 2:
        return None, zero_cells_hit
    stat = sum((o - e) ** 2 / e for o, e in zip(obs, exp))
    df = len(obs) - 1
    return (stat, df, chi2_logsf(stat, df)), zero_cells_hit


def independence(table):
    """chi-square test of independence on an r x c table of counts -> (stat, df, log_p) or None"""
    rows = [r for r in table if sum(r) > 0]
    if not rows:
        return None
    cols = [j for j in range(len(rows[0])) if sum(r[j] for r in rows) > 0]
    rows = [[r[j] for j in cols] for r in rows]
    n = sum(map(sum, rows))
    rs = [sum(r) for r in rows]
    cs = [sum(r[j] for r in rows) for j in range(len(cols))]
    # drop rows / columns whose smallest expected count is < 5 by merging them into their neighbour
    def merge(vec_tot, axis):
        nonlocal rows, rs, cs
        changed = True
        while changed and len(vec_tot()) > 1:
            changed = False
            tot = vec_tot()
            other = cs if axis == 0 else rs
            for i, t in enumerate(tot):
                if t * min(other) / n < 5:
                    j = i - 1 if i > 0 else i + 1
                    if axis == 0:
                        rows[j] = [a + b for a, b in zip(rows[j], rows[i])]
                        del rows[i]
                    else:
                        for r in rows:
                            r[j] += r[i]
                            del r[i]
                    rs = [sum(r) for r in rows]
                    cs = [sum(r[k] for r in rows) for k in range(len(rows[0]))]
                    changed = True
                    break
    merge(lambda: rs, 0)
    merge(lambda: cs, 1)
    if len(rows) < 2 or len(rows[0]) < 2:
        return None
    stat = 0.0
    for i, r in enumerate(rows):
        for j, o in enumerate(r):
            e = rs[i] * cs[j] / n
            stat += (o - e) ** 2 / e
    df = (len(rows) - 1) * (len(rows[0]) - 1)
    return stat, df, chi2_logsf(stat, df)


def binom_log_tails(k, n, p):
    """(log P(X <= k), log P(X >= k)) for X ~ Binomial(n, p), summed exactly in log space (for small n*p, where the
    chi-square approximation is useless)"""
    if p <= 0.0:
        return (0.0, 0.0 if k == 0 else -math.inf)
    if p >= 1.0:
        return (0.0 if k >= n else -math.inf, 0.0)
    lp, lq = math.log(p), math.log1p(-p)

    def logpmf(i):
        return math.lgamma(n + 1) - math.lgamma(i + 1) - math.lgamma(n - i + 1) + i * lp + (n - i) * lq

    def logsum(terms):
        m = max(terms)
        return m + math.log(sum(math.exp(t - m) for t in terms))

    mode = int((n + 1) * p)
    lo_terms = [logpmf(i) for i in range(max(0, min(k, mode) - 4000), k + 1)] if k >= 0 else [-math.inf]
    # upper tail: from k upwards until the terms are negligible against the largest
    hi_terms, i, best = [], k, -math.inf
    while i <= n:
        t = logpmf(i)
        hi_terms.append(t)
        best = max(best, t)
        if i > mode and t < best - 60:
            break
        i += 1
    return (min(0.0, logsum(lo_terms)), min(0.0, logsum(hi_terms)) if hi_terms else -math.inf)
