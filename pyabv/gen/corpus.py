"""Fixed corpus: the documented examples (copied verbatim from the language README and
docs/experiment_format.rst of the pinned commit - they are part of the documented contract) and
the repository's own test programs (read from the working tree at run time)."""

from __future__ import annotations

import os

README_COMPLETE_EXAMPLE = '''def complex_experiment {
    // Salt ensures consistent group assignment
    salt: "user_exp_v1"

    // Fields used for splitting traffic
    splitters: user_id, country

    // Target specific user segments
    if age >= 21 and country in ("US", "CA") {
        // High-value markets get 3 variants
        return "control" weighted 1,
               "variant_a" weighted 2,
               "variant_b" weighted 2
    } else if country not in ("US", "CA") {
        // International markets get 2 variants
        return "int_control" weighted 1,
               "int_variant" weighted 1
    } else {
        // Everyone else gets default experience
        return "default" weighted 1
    }
}
'''

README_CONDITIONAL_EXAMPLE = '''def readme_conditional {
    splitters: user_id
    if user_id in (1,2,3) {
        return "group1" weighted 1
    } else if country == "US" and age >= 18 {
        return "group2" weighted 1
    } else {
        return "default" weighted 1
    }
}
'''

README_RETURN_EXAMPLE = '''def readme_return {
    splitters: uid
    return "control" weighted 1,
           "variant_a" weighted 2,
           "variant_b" weighted 1
}
'''

DOCS_FORMAT_EXAMPLE = '''/*************************************************************
Sample experiment definition with all language features
the language syntax is quite basic. The definition is inspired
by (a heavyly reduced subset of) C syntax. Unlike python indentation has no meaning
However for readability it's still highly recommended.
Also C-like comment blocks are allowed!!!
**************************************************************/

def complex_experiment_defn{
    // an optional salt (must come before splitting fields)
    salt: "csdvs887"

    // define splitting fields here, these define how a group is chosen
    splitters: my_fld, my_fld_1

    // The last part is a conditional expression.
    // here we define the conditions for choosing a group.

    // boolean operator precedence follows standard practice
    // i.e. 'not' has highest precedence, followed by 'and',
    //to finish with 'or' as the lowest precedence operator
    if field1=='a' and not field2 >4 or field3<9{
        if field4 == 'xyz'{

            // Return statements are probabilistic by nature
            // the weight defines the relative frequency of seeing one setting vs others
            return "123" weighted 3.4,
                    "9.3" weighted 5,
                    "abc" weighted 3 /* like in C, embedded, multiline
                    block comment also works */
        }
        else if field5 != 'x'{
            return "Setting 1.1.1" weighted 1,
                    "Setting 1.1.2" weighted 0

        }
        else if field6 in (1,2,3) and field7 not in (8,9,10){
            return "Setting 1.2.1" weighted 0.5,
                    "Setting 1.2.2" weighted 0.5

        }
        else{
            return "Setting 1.3.1" weighted 0.5,
                    "Setting 1.3.2" weighted 0.5

        }
    }
    else{
        return "default" weighted 1 // comments inline after code are also ignored
    }
}
'''

DOCUMENTED = {
    "README complete example": README_COMPLETE_EXAMPLE,
    "README conditional example": README_CONDITIONAL_EXAMPLE,
    "README return example": README_RETURN_EXAMPLE,
    "docs/experiment_format example": DOCS_FORMAT_EXAMPLE,
}

# small seed programs that together use every token kind and every production
SEEDS = [
    'def a { return "x" weighted 1 }',
    'def b { salt: "s" splitters: u return "x" weighted 1, "y" weighted 2.5 }',
    "def c { splitters: u, v return 1 weighted 1, -2 weighted 1, 3.5 weighted 0, - 4.25 weighted 3 }",
    'def d { if f == 1 { return "t" weighted 1 } }',
    'def e { splitters: u if f != "s" { return "t" weighted 1 } else { return "f" weighted 1 } }',
    'def f { if a > 1 { return "1" weighted 1 } else if a < 0 { return "2" weighted 1 } else if a >= 0.5 '
    '{ return "3" weighted 1 } else { return "4" weighted 1 } }',
    'def g { splitters: u if a <= 1 and b in (1, 2, 3) or not c not in ("x", \'y\') { return "t" weighted 1, '
    '"u" weighted 1 } }',
    'def h { if (a == 1 or b == 2) and not (c == 3) { if d in ((1, 2), (3, 4)) { return "n" weighted 1 } } '
    'else { return "e" weighted 1 } }',
    'def i { salt: \'q\' splitters: u if a in (b, "c", -1, 2.5) { return "t" weighted 1 } }',
    'def j { if not not a == (1, 2) { return 0 weighted 1 } else if (a) != (b) { return 1 weighted 1 } }',
    'def k { splitters: x, y, z if x == y and y == z or x != z { return "p" weighted 10, "q" weighted 0.5 } '
    'else { if z > -1.5 { return "r" weighted 1 } } }',
    'def l { if "lit" == a { return "t" weighted 1 } else if 3 < a { return "u" weighted 1 } }',
    # white space *inside* literals is data: tabs, runs of blanks, leading / trailing blanks
    'def m { salt: "s\tx  y" splitters: u if a == " lead" or a in ("t\tb", "trail  ") { return "g\t1" weighted 1, "g  2" weighted 1 } '
    'else { return " g3 " weighted 1 } }',
]


def test_programs():
    """{file name: text} of the repository's own test programs (working tree)."""
    repo = os.environ.get("PYABV_REPO", "/repo")
    d = os.path.join(repo, "tests", "unit", "test_programs")
    out = {}
    if os.path.isdir(d):
        for fn in sorted(os.listdir(d)):
            if fn.endswith(".pyab"):
                with open(os.path.join(d, fn), encoding="utf-8") as f:
                    out[fn] = f.read()
    return out
