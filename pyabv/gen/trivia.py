"""Trivia (whitespace and comments) insertion between reference tokens (C08)."""

from __future__ import annotations

from pyabv.ref.lex import Ambiguous, Reject, tokenize

KINDS = {
    "space": " ",
    "two-spaces": "  ",
    "tab": "\t",
    "lf": "\n",
    "crlf": "\r\n",
    "ff": " \f ",
    "blank-lines": "\n\n\n",
    # white space beyond blank / tab / line feed: everything str.isspace() and the regex class \s call white space (what the
    # language's lexer ignores between tokens today), e.g. a no-break space pasted from a document
    "cr-only": "\r",
    "vt-ff": "\x0b\x0c",
    "fs-gs-rs-us": "\x1c\x1d\x1e\x1f",
    "nel": "\x85",
    "nbsp": "\u00a0",
    "nbsp-run": " \u00a0\u00a0 ",
    "em-thin-spaces": "\u2003\u2009\u200a",
    "ls-ps": "\u2028\u2029",
    "narrow-nbsp-mmsp": "\u202f\u205f",
    "ideographic-space": "\u3000",
    "ogham-space": "\u1680",
    "line-comment": " // a comment\n",
    "line-comment-crlf": " // a comment\r\n",
    "line-comment-hostile": " // \"quoted\" 'single' return weighted if /* not */ a block } { \n",
    "line-comment-empty": "//\n",
    "line-comment-slashes": " ///// **** /////\n",
    "block": " /* c */ ",
    "block-tight": "/* c */",
    "block-empty": "/**/",
    "block-stars": "/***/",
    "block-stars2": " /****** x ******/ ",
    "block-multiline": " /* line one\n   line two\n   line three */ ",
    "block-multiline-crlf": " /* line one\r\n line two */ ",
    "block-hostile": " /* \"quote 'single return \"x\" weighted 1, // not a line comment \n * star / slash } */ ",
    "block-keywords": " /* def salt splitters if else weighted return and or not in */ ",
    "two-blocks": " /* a */ /* b */ ",
    "two-blocks-tight": "/* a *//* b */",
    "block-then-line": " /* a */ // b */ still a line comment\n",
    "block-closing-star": " /* a **/ ",
    "block-slash-star-slash": " /*/ x */ ",
    "block-with-newline-end": " /* a\n*/ ",
    "block-line-marker-first": " /* // old */ ",
    "block-line-marker-tight": "/*// x*/",
    "block-line-marker-later-line": " /* a\n // b */ ",
    "block-apostrophe": " /* don't */ ",
    "block-dquote": ' /* 3" wide */ ',
    "block-triple-dquote": ' /* mirrors the """Checkout button""" docstring */ ',
    "block-triple-squote": " /* ''' */ ",
    "block-triple-dquote-code": ' /* """; x = 1; r""" */ ',
    "line-triple-dquote": ' // see """doc"""\n',
    "block-backslash-end": " /* ends with a backslash \\*/ ",
    "block-nul": " /* a\x00b */ ",
    "line-percent-braces": " // 100% {done} %s {0} ${x}\n",
    "block-quoted-terminator": ' /* salt: "a" */ ',
    "block-hash-and-backslash": " /* # \\ \\n */ ",
    "line-comment-apostrophe": " // don't\n",
    "line-comment-block-opener": " // see /* below\n",
    "line-comment-backslash-eol": " // path c:\\\n",
    # characters that str.splitlines() treats as line ends but the language does not: the comment runs to the LF
    "line-comment-cr-inside": " // sign:\r- , \"zz\" weighted 3 {\n",
    "line-comment-ff-inside": " // control\x0c, \"zz\" weighted 3 }\n",
    "line-comment-vt-inside": " // a\x0b) and (\n",
    "line-comment-fs-inside": " // a\x1c not \x1d in \x1e if\n",
    "line-comment-nel-inside": " // a\x85 return \"zz\" weighted 1\n",
    "line-comment-ls-inside": " // a\u2028 else { \u2029 }\n",
    "line-comment-if-predicate": " // fallback, only reached if tier == 1\n",
    "line-comment-in-list": " // values not in (1, 2)\n",
    "block-cr-inside": " /* a\r*/ ",
    "block-ls-inside": " /* a\u2028b\x85c\x0cd */ ",
}
# white space *inside* the two-word keywords (`not in`, `else if` are single tokens whose inner white space is free)
INNER_WS = ["  ", "\t", "\n", " \n\t ", "\r\n", "   \t"]


def inner_whitespace_variants(slices):
    """texts in which the blank inside one two-word keyword is written differently; yields (index, replacement, text)"""
    for i, tok in enumerate(slices):
        words = tok.split()
        if len(words) == 2 and words[0] in ("not", "else"):
            for ws in INNER_WS:
                yield i, ws, " ".join(slices[:i] + [words[0] + ws + words[1]] + slices[i + 1:])


COMMENT_KINDS = [k for k, v in KINDS.items() if "/" in v]
WS_KINDS = [k for k in KINDS if k not in COMMENT_KINDS]


def token_slices(text):
    """source slices of the reference tokens of text"""
    return [text[t.start: t.end] for t in tokenize(text)]


def token_signature(text):
    """(kind, normalised text) sequence; None when not lexable / ambiguous"""
    try:
        toks = tokenize(text)
    except (Reject, Ambiguous):
        return None
    return [(t.kind, t.text if t.kind not in ("ELIF", "NOT_IN") else t.kind) for t in toks]


def join(slices, gaps):
    """gaps has len(slices)+1 entries: before the first token, between, after the last"""
    out = [gaps[0]]
    for s, g in zip(slices, gaps[1:]):
        out.append(s)
        out.append(g)
    return "".join(out)


def canonical(slices):
    return " ".join(slices)


def random_piece(rnd, allow_comments=True):
    r = rnd.random()
    if not allow_comments or r < 0.35:
        return KINDS[rnd.choice(WS_KINDS)], None
    if r < 0.8:
        k = rnd.choice(COMMENT_KINDS)
        return KINDS[k], k
    # random content comments
    alphabet = "ab \"'*/ {}(),:<>=!-weighted return if else 01\t"
    body = "".join(rnd.choice(alphabet) for _ in range(rnd.randint(0, 30)))
    if rnd.random() < 0.5:
        body = body.replace("*/", "* /").replace("/*", "/ *")
        if body.endswith("*") and False:
            body += " "
        lines = rnd.randint(0, 2)
        for _ in range(lines):
            pos = rnd.randint(0, len(body))
            body = body[:pos] + "\n" + body[pos:]
        body = body.replace("/*", "/ *").replace("*/", "* /")
        if body.startswith("/"):
            body = " " + body  # '/*/' would still be an opener followed by '/': fine, but keep it simple
        if body.endswith("/") and False:
            body += " "
        return "/*" + body + "*/", "block-random"
    return "//" + body + "\n", "line-random"


def random_gaps(rnd, n_tokens, density=0.5, max_pieces=3):
    """trivia for every gap; returns (gaps, kinds_used)"""
    gaps, used = [], []
    for g in range(n_tokens + 1):
        pieces = []
        if rnd.random() < density:
            for _ in range(rnd.randint(1, max_pieces)):
                p, k = random_piece(rnd)
                pieces.append(p)
                if k:
                    used.append(k)
        s = "".join(pieces)
        if 0 < g < n_tokens and not s:
            s = " "
        gaps.append(s)
    return gaps, used
