"""Weight vectors expressible in the language (C03, C10, C16)."""

from __future__ import annotations

from decimal import Decimal
from fractions import Fraction


def frac(text):
    return Fraction(Decimal(text))


def to_number(text):
    """the value the language gives a weight text"""
    return float(text) if "." in text else int(text)


def random_weight(rnd, cls):
    if cls == "small-int":
        return str(rnd.randint(1, 20))
    if cls == "int":
        return str(rnd.choice([1, 2, 3, 5, 7, 10, 99, 100, 1000, 65535, 10**6, 10**9, rnd.randint(1, 10**9)]))
    if cls == "decimal":
        ip = rnd.choice(["0", "0", str(rnd.randint(0, 9)), str(rnd.randint(0, 10**9 - 1))])
        fp = "".join(rnd.choice("0123456789") for _ in range(rnd.randint(1, 9)))
        t = ip + "." + fp
        return t if frac(t) > 0 else "0.000000001"
    if cls == "tiny":
        return rnd.choice(["0.000000001", "0.00000001", "0.0000005", "0.000001", "0.00000000025", "0.0000123", "0.0000000000000000000125",
                           "0.000000000000000000000000000015", "0.00001", "0.000099"])
    if cls == "huge":
        return rnd.choice(["1000000000", "999999999.999999999", "123456789", "500000000.5", "150000000000000000000.0", "12300000000000000.0",
                           "10000000000000000.0", "2500000000000000000000000000000.0", "1" + "0" * 300, "25" + "0" * 299 + ".0",
                           "1" + "0" * 150])
    if cls == "tenths":
        return rnd.choice(["0.1", "0.2", "0.3", "0.7", "0.6", "0.5", "1.1", "3.4", "33.3", "0.25", "2.5"])
    raise ValueError(cls)


def random_vector(rnd, max_groups=64):
    """-> list of weight texts; zeros anywhere but not everywhere"""
    r = rnd.random()
    if r < 0.35:
        n = rnd.randint(1, 5)
    elif r < 0.8:
        n = rnd.randint(2, 12)
    else:
        n = rnd.randint(min(13, max_groups), max_groups)
    style = rnd.choice(["small-int", "int", "decimal", "tenths", "mixed", "extremes", "equal"])
    out = []
    for _ in range(n):
        if style == "mixed":
            cls = rnd.choice(["small-int", "int", "decimal", "tiny", "huge", "tenths"])
        elif style == "extremes":
            cls = rnd.choice(["tiny", "huge", "small-int"])
        elif style == "equal":
            cls = None
        else:
            cls = style
        out.append(random_weight(rnd, cls) if cls else None)
    if style == "equal":
        w = random_weight(rnd, rnd.choice(["small-int", "tenths", "decimal"]))
        out = [w] * n
    # zeros
    if n > 1 and rnd.random() < 0.4:
        for _ in range(rnd.randint(1, max(1, n // 3))):
            out[rnd.randrange(n)] = rnd.choice(["0", "0.0", "0.000"])
    if all(frac(t) == 0 for t in out):
        out[rnd.randrange(n)] = "1"
    return out


def ramp_pair(rnd):
    """(v, v2) integer-percent vectors with every prefix share of v2 >= that of v"""
    n = rnd.choice([2, 2, 3, 3, 4, 5, 6, 8, 9, 12])
    cuts = sorted(rnd.randint(0, 100) for _ in range(n - 1))
    cuts2 = sorted(min(100, c + rnd.randint(0, 30)) for c in cuts)
    def vec(cs):
        pts = [0] + cs + [100]
        return [str(pts[i + 1] - pts[i]) for i in range(n)]
    v, v2 = vec(cuts), vec(cuts2)
    if all(x == "0" for x in v) or all(x == "0" for x in v2):
        return ramp_pair(rnd)
    return v, v2
