"""Golden boundary ids: strings g<decimal> whose MD5 starts with a chosen 32-bit value
(data/golden_ids.json, found once by brute force).  Every id is re-hashed at load time."""

from __future__ import annotations

import hashlib
import json
import os
from decimal import Decimal
from fractions import Fraction

_HOME = os.environ.get("PYABV_HOME", os.path.dirname(os.path.dirname(os.path.dirname(os.path.abspath(__file__)))))

# the weight vectors whose boundaries are covered by the golden targets (see data/tools/make_targets.py)
GOLDEN_VECTORS = [
    ["1", "1"], ["1", "2"], ["2", "1"], ["1", "3"], ["1", "9"], ["9", "1"], ["1", "99"], ["99", "1"], ["1", "2", "3"],
    ["1", "1", "2"], ["4", "1"], ["1", "1", "1"], ["1", "1", "1", "1", "1"], ["1"] * 10, ["1"] * 16, ["1"] * 32, ["1"] * 64,
    ["3.4", "5", "3"], ["1000000000", "1"], ["1", "1000000000"], ["0.000000001", "1"], ["1", "0.000000001"],
    ["1", "2", "3", "0", "4"], ["0.1", "0.2", "0.3"], ["1.5", "2.5", "0", "1"], ["999999999.999999999", "0.000000001", "1"],
    ["0", "1", "1"], ["1", "0", "1"], ["1", "1", "0"], ["0", "0", "1", "0"], ["5", "15", "80"], ["10", "90"], ["20", "80"],
    ["0.5", "0.5"], ["0.25", "0.75"], ["33.3", "33.3", "33.4"], ["1", "999"], ["5", "995"], ["333", "667"],
]

_cache = None


def load():
    """-> {k: [ids]} ; raises if an id does not hash to its k (the file is not trusted)"""
    global _cache
    if _cache is None:
        with open(os.path.join(_HOME, "data", "golden_ids.json")) as f:
            raw = json.load(f)["ids"]
        out = {}
        for ks, ids in raw.items():
            k = int(ks)
            for s in ids:
                got = int.from_bytes(hashlib.md5(s.encode("utf-8")).digest()[:4], "big")
                if got != k:
                    raise ValueError(f"golden id {s} hashes to {got}, file says {k}")
            out[k] = list(ids)
        _cache = out
    return _cache


def fractions(vec):
    return [Fraction(Decimal(w)) for w in vec]


def split_id(gid: str, how: str):
    """ways to reach the same key string g<digits> through the unmodified pipeline:
    'plain'  : no salt, uid = 'g123'                 (str)
    'salt'   : salt 'g', uid = 123                   (int splitter value)
    'two'    : no salt, fields a='g1', b=23 (sorted a<b)
    """
    digits = gid[1:]
    if how == "plain":
        return None, {"uid": gid}
    if how == "salt":
        if digits.startswith("0") and len(digits) > 1:
            return "g", {"uid": digits}
        return "g", {"uid": int(digits)}
    if how == "two":
        cut = max(1, len(digits) // 2)
        tail = digits[cut:]
        b = tail if (tail.startswith("0") or tail == "") else int(tail)
        return None, {"a": "g" + digits[:cut], "b": b}
    raise ValueError(how)
