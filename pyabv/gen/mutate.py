"""Token-level mutations of grammatical programs (C06)."""

from __future__ import annotations

ILLEGAL = list("=!.;@#$%^&*+[]|\\~?/") + ['"', "'", "é", "`", "\x00", "¬"]
KEYWORDS = ["def", "salt", "splitters", "if", "else", "else if", "weighted", "return", "and", "or", "not", "in", "not in"]
TOKEN_POOL = KEYWORDS + ["(", ")", ",", ":", "{", "}", "-", "==", "!=", ">", "<", ">=", "<=", "x", "fld", "1", "2.5",
                         '"s"', "'t'"]
OP_BREAKS = {"==": ["= =", "=", "=== ", "=!"], "!=": ["! =", "!", "=!", "!=="], ">=": ["> =", "=>", ">=="],
             "<=": ["< =", "=<", "<=="], ">": [">>", "> >"], "<": ["<<", "<>"]}
PREFIX_JUNK = ["junk", "junk junk", "1", '"s"', "}", "{", "def", 'def broken { return "x" weighted }',
               'def broken { return "x" weighted 1', "def x {}", ",", ":", "return", "- 1"]
SUFFIX_JUNK = PREFIX_JUNK + ["/* open", "/* open\n", '"open', "'open", 'def second { return "z" weighted 1 }', "}", "}}",
                             "/*/", "/"]
WEIGHT_BREAKS = [".5", "5.", "-1", "- 1", "1e5", "1.5.2", "+1", "1,5", "0x1", "1_0", "", "(1)", '"1"', "x"]


# characters that render as nothing (or as a blank) but are neither white space nor token characters of the language
INVISIBLE = ["\ufeff", "\u200b", "\u200d", "\u2060", "\u00ad", "\u200e", "\x7f", "\x08"]


NUMBER_FORMS = ["1_0", "0x1F", "0b11", "0o7", "1e3", "1E3", "1.5e3", "1.", ".5", "1..5", "1.5.", "01.5.0", "1,5", "+1", "1j", "1L", "1f",
                "0.5f", "1/2", "50%", "$5", "1 000", "NaN", "inf", "-inf", "1.5e", "0x", "\u0661", "\uff11", "1\u00b2"]
STRING_FORMS = ['r"x"', 'f"x"', 'b"x"', 'u"x"', '"""x"""', "\'\'\'x\'\'\'", "`x`", '"x', "x\"", "'x", '"a\\"b"', "'a\\'b'", '"a""b"', "'a''b'",
                '"a\nb"', "\u201cx\u201d", "\u2018x\u2019", "<<x>>", '"x"s', 's"x"', '("x")', '"x" "y"', '"x"+"y"']


def single_mutations(slices):
    """Exhaustive single mutations of one token-slice list.  yields (kind, detail, text)"""
    n = len(slices)
    J = " ".join
    for i in range(n):
        yield "delete", i, J(slices[:i] + slices[i + 1:])
        yield "duplicate", i, J(slices[: i + 1] + slices[i:])
        if i + 1 < n and slices[i] != slices[i + 1]:
            yield "swap", i, J(slices[:i] + [slices[i + 1], slices[i]] + slices[i + 2:])
        yield "truncate", i, J(slices[:i])
        tok = slices[i]
        if tok in ("def", "salt", "splitters", "if", "else", "weighted", "return", "and", "or", "not", "in") or tok.startswith(("else", "not ")):
            for v in {tok.upper(), tok.title(), tok[0].upper() + tok[1:], tok + "_", tok + "s"} - {tok}:
                yield "keyword-case", (i, v), J(slices[:i] + [v] + slices[i + 1:])
        if tok[:1].isdigit():
            for v in NUMBER_FORMS:
                yield "number-format", (i, v), J(slices[:i] + [v] + slices[i + 1:])
        if tok[:1] in "\"'":
            for v in STRING_FORMS:
                yield "string-format", (i, v), J(slices[:i] + [v] + slices[i + 1:])
        if slices[i] in OP_BREAKS:
            for b in OP_BREAKS[slices[i]]:
                yield "break-operator", (i, b), J(slices[:i] + [b] + slices[i + 1:])
        if i > 0 and slices[i - 1] == "weighted":
            for b in WEIGHT_BREAKS:
                yield "break-weight", (i, b), J(slices[:i] + [b] + slices[i + 1:])
    for i in range(n + 1):
        for ch in ILLEGAL:
            yield "illegal-char", (i, ch), J(slices[:i] + [ch] + slices[i:])
        for kw in KEYWORDS:
            yield "insert-keyword", (i, kw), J(slices[:i] + [kw] + slices[i:])
    # illegal character glued to a token (no whitespace)
    for i in range(n):
        for ch in ".;@#=!":
            yield "illegal-char-glued", (i, ch), J(slices[:i] + [slices[i] + ch] + slices[i + 1:])
            yield "illegal-char-glued", (i, ch), J(slices[:i] + [ch + slices[i]] + slices[i + 1:])
    # another kind of bracket where the language has exactly one: ( ) for tuples and groups, { } for blocks
    swaps = {"(": ["[", "{", "<"], ")": ["]", "}", ">"], "{": ["(", "[", ":"], "}": [")", "]", "end"]}
    for i in range(n):
        for alt in swaps.get(slices[i], []):
            yield "bracket-kind", (i, alt), J(slices[:i] + [alt] + slices[i + 1:])
    if "(" in slices:
        yield "bracket-kind", "all-square", J([{"(": "[", ")": "]"}.get(t, t) for t in slices])
        yield "bracket-kind", "all-curly", J([{"(": "{", ")": "}"}.get(t, t) for t in slices])
    # two neighbours written without the blank between them (the reference lexer decides what that text is: often still
    # the same sentence - `{return` - sometimes another sentence, sometimes no sentence at all - `else ifx`, `weighted1`)
    for i in range(n - 1):
        yield "glue", i, J(slices[:i] + [slices[i] + slices[i + 1]] + slices[i + 2:])
    # invisible characters: between tokens, glued to a token, inside a token
    for i in range(n):
        for ch in INVISIBLE:
            tok = slices[i]
            yield "invisible-char", (i, "between", ch), J(slices[:i] + [ch] + slices[i:])
            yield "invisible-char", (i, "glued", ch), J(slices[:i] + [tok + ch] + slices[i + 1:])
            if len(tok) > 1 and tok[:1] not in "\"'":
                yield "invisible-char", (i, "inside", ch), J(slices[:i] + [tok[: len(tok) // 2] + ch + tok[len(tok) // 2:]] + slices[i + 1:])
    yield "invisible-char", (0, "leading", "\ufeff"), "\ufeff" + J(slices)
    # a comment (not white space) between the two words of `not in` / `else if`: two tokens, no longer the keyword
    for i in range(n):
        words = slices[i].split()
        if len(words) == 2 and words[0] in ("not", "else"):
            for sep in (" /* x */ ", "/**/", " // x\n ", " /* a */ /* b */ "):
                yield "comment-in-two-word-keyword", (i, sep), J(slices[:i] + [words[0] + sep + words[1]] + slices[i + 1:])
    # a line break inside a string literal
    for i in range(n):
        tok = slices[i]
        if tok[:1] in "\"'" and len(tok) >= 3:
            yield "newline-in-string", i, J(slices[:i] + [tok[:1] + tok[1:-1][:1] + "\n" + tok[1:-1][1:] + tok[-1:]] + slices[i + 1:])
            yield "newline-in-string", i, J(slices[:i] + [tok[:-1] + "\n" + tok[-1:]] + slices[i + 1:])
    for p in PREFIX_JUNK:
        yield "prefix-junk", p, p + " " + J(slices)
    for s in SUFFIX_JUNK:
        yield "suffix-junk", s, J(slices) + " " + s
    yield "concat-self", None, J(slices) + "\n" + J(slices)


def random_mutation(rnd, slices, other=None):
    """One random mutation.  -> (kind, new_slices) ; slices are joined by the caller"""
    n = len(slices)
    s = list(slices)
    r = rnd.random()
    if r < 0.15 and n > 1:
        i = rnd.randrange(n)
        del s[i]
        return "delete", s
    if r < 0.27:
        i = rnd.randrange(n)
        s.insert(i, s[i])
        return "duplicate", s
    if r < 0.4 and n > 1:
        i = rnd.randrange(n - 1)
        s[i], s[i + 1] = s[i + 1], s[i]
        return "swap", s
    if r < 0.55:
        s.insert(rnd.randint(0, n), rnd.choice(TOKEN_POOL))
        return "insert-token", s
    if r < 0.7:
        s.insert(rnd.randint(0, n), rnd.choice(ILLEGAL))
        return "illegal-char", s
    if r < 0.73 and n > 1:
        i = rnd.randrange(n - 1)
        s[i: i + 2] = [s[i] + s[i + 1]]
        return "glue", s
    if r < 0.76:
        i = rnd.randrange(n)
        ch = rnd.choice(ILLEGAL + INVISIBLE)
        s[i] = s[i] + ch if rnd.random() < 0.5 else ch + s[i]
        return "illegal-char-glued", s
    if r < 0.82:
        return "prefix-junk", [rnd.choice(PREFIX_JUNK)] + s
    if r < 0.9:
        return "suffix-junk", s + [rnd.choice(SUFFIX_JUNK)]
    if r < 0.95 and n > 2:
        return "truncate", s[: rnd.randint(0, n - 1)]
    if other is not None:
        return "concat", s + list(other)
    return "concat", s + s
