"""Grammar-directed program generator (DESIGN.md 2.3).

Produces reference-AST nodes (pyabv.ref.parse dataclasses), renders them to text in a random
style and keeps the side information the input generator needs (kind of every field, literals
each field is compared with).  The oracles always re-parse the *text* with pyabv.ref.parse; the
generator-side AST is only used as a self-check (render -> ref.parse must reproduce it).
"""

from __future__ import annotations

from dataclasses import dataclass, field

from pyabv.gen import literals as L
from pyabv.ref.parse import And, Cmp, Group, Id, If, Lit, Not, Or, Program, Ret, Tup

OPS = ["==", "!=", ">", "<", ">=", "<=", "in", "not in"]
ORDER_OPS = [">", "<", ">=", "<="]

POOL_PLAIN = ["field1", "field2", "my_id", "routing_field", "uid", "user_id", "country", "age", "device", "plan"]
POOL_KWPREFIX = [
    "order_id", "index", "not_active", "android", "notify", "iffy", "elsewhere", "defn", "returns", "weighted_avg",
    "salty", "splitters_n", "inside", "input", "andy", "or_else", "info", "format", "organic", "notes", "define",
    "ifx", "else_", "in_", "not_", "innings", "saltwater", "and_", "or_", "elseif_x", "weightedx", "returned",
    "definition", "notin", "splitters2", "if_", "def_", "IN", "If", "NOT", "Def", "RETURN", "Or",
    # a keyword directly followed by a digit is an identifier too
    "in2", "or1", "if0", "def9", "salt1", "not1", "and3", "else5", "return7", "weighted2", "in2x", "not1_in",
]
POOL_SHAPE = ["_", "_x", "__", "X", "Name", "a1", "a", "b", "k", "z", "Q", "x_1_y", "camelCase", "ALLCAPS", "_9",
              "v" * 64, "match", "case", "type", "print", "len", "list", "int", "id", "hash", "self", "cls",
              # words that are literals or operators in other languages, not in this one
              "true", "false", "null", "none", "nil", "nan", "inf", "yes", "no", "is_", "xor", "like", "between",
              # names of the generated code's own parameters and locals, as far as a reader of the README can guess them
              "salt_", "key", "w", "args", "population", "weights", "cum_weights", "input_id", "k", "u",
              # names of attributes of the evaluator object and of every Python object
              "recompile", "run_experiment", "_checksum", "__call__", "__init__", "__class__", "__dict__", "__name__", "__doc__",
              # words an API likes to use for options of a call (a keyword-only parameter added to the evaluator would capture them)
              "default", "fallback", "strict", "debug", "seed", "timeout", "verbose", "context", "trace", "dry_run", "on_error", "callback",
              "options", "config", "source", "source_code", "text", "name", "value", "group", "result", "field", "fields", "record"]
# identifiers that are Python hard keywords (not DSL keywords) or names the generated code uses
POOL_HOSTILE = [
    "class", "for", "lambda", "None", "True", "False", "is", "as", "assert", "async", "await", "break", "continue",
    "del", "elif", "except", "finally", "from", "global", "import", "nonlocal", "pass", "raise", "try", "while",
    "with", "yield", "__debug__", "partial", "deterministic_choice", "ExperimentConditionalFailedError",
    "choose_experiment_variant", "kwargs", "map", "str",
]
POOLS = {"plain": POOL_PLAIN, "kwprefix": POOL_KWPREFIX, "shape": POOL_SHAPE, "hostile": POOL_HOSTILE}
EXP_NAMES = ["e", "exp_1", "Test", "index", "my_experiment", "order_exp", "_e", "E2", "notify", "iffy_test"]


@dataclass
class GenProg:
    text: str
    ast: Program
    kinds: dict  # identifier -> 'num' | 'str' | 'tnum' | 'tstr' | 'any' (splitter-only)
    lits: dict  # identifier -> list of python values it is compared with
    splitter_only: set = field(default_factory=set)
    shared: set = field(default_factory=set)  # identifiers that are both splitter and condition field
    features: set = field(default_factory=set)


@dataclass
class Profile:
    max_depth: int = 3  # nesting of conditionals
    max_arms: int = 3  # if + else-ifs
    max_groups: int = 4
    pred_depth: int = 3
    p_leaf_cond: float = 0.35
    p_else: float = 0.6
    pools: tuple = ("plain", "kwprefix", "shape")
    hard_literals: float = 0.35
    splitters: tuple = (1, 3)  # min, max; (0,0) = none
    p_shared: float = 0.35
    p_salt: float = 0.6
    weights: str = "mixed"  # 'mixed' | 'int' | 'simple'
    label_kinds: tuple = ("str", "str", "str", "int", "float")
    p_tuple_ident: float = 0.15
    p_nested_tuple: float = 0.1
    p_field_field: float = 0.15
    p_lit_left: float = 0.15
    redundant_parens: float = 0.2
    p_const_pred: float = 0.04
    p_repeat_return: float = 0.0


SALTS = [None, None, "", "{kwargs}", "v-{kwargs!r}-{0}", "s1", "exp_v1", "é", "a'b", 'x"y', "\\", "salt with spaces", "日本", "csdvs887", "%s{0}", "\\n"]


class ProgGen:
    def __init__(self, rnd, profile: Profile | None = None):
        self.rnd = rnd
        self.pf = profile or Profile()
        self.names = [n for p in self.pf.pools for n in POOLS[p]]

    # -- per-program state ----------------------------------------------------------------------
    def _reset(self):
        self.kinds = {}
        self.lits = {}
        self.nret = 0
        self.features = set()
        self.by_kind = {"num": [], "str": [], "tnum": [], "tstr": []}
        self.prev_returns = []

    def ident(self, kind):
        rnd = self.rnd
        have = self.by_kind[kind]
        if have and rnd.random() < 0.55:
            return rnd.choice(have)
        for _ in range(30):
            n = rnd.choice(self.names)
            if n not in self.kinds:
                self.kinds[n] = kind
                self.lits.setdefault(n, [])
                have.append(n)
                return n
        return rnd.choice(have) if have else self._fresh(kind)

    def _fresh(self, kind):
        n = f"f{len(self.kinds)}_{kind}"
        self.kinds[n] = kind
        self.lits.setdefault(n, [])
        self.by_kind[kind].append(n)
        return n

    def lit(self, base):
        return L.gen_num(self.rnd, self.pf.hard_literals) if base == "num" else L.gen_str(self.rnd, self.pf.hard_literals)

    # -- predicates -----------------------------------------------------------------------------
    def tuple_term(self, base, owner, depth=0):
        rnd = self.rnd
        items = []
        for _ in range(rnd.randint(1, 5)):
            r = rnd.random()
            if r < self.pf.p_tuple_ident:
                items.append(Id(self.ident(base)))
                self.features.add("ident-in-tuple")
            else:
                lt = self.lit(base)
                self.lits[owner].append(lt.value)
                items.append(lt)
        return Tup(tuple(items))

    def cmp(self):
        rnd = self.rnd
        base = rnd.choice(["num", "str"])
        op = rnd.choice(OPS)
        a = self.ident(base)
        self.features.add("op:" + op)
        if op in ("in", "not in"):
            r = rnd.random()
            if rnd.random() < self.pf.p_const_pred:
                self.features.add("literal-in-tuple")
                return Cmp(self.lit(base), op, self.tuple_term(base, a))
            if r < self.pf.p_nested_tuple:
                # tuple-valued field against a tuple of tuples
                t = self.ident("t" + base)
                inner = [Tup(tuple(self.lit(base) for _ in range(rnd.randint(1, 3)))) for _ in range(rnd.randint(1, 3))]
                for tt in inner:
                    self.lits[t].append(tuple(x.value for x in tt.items))
                self.features.add("nested-tuple")
                return Cmp(Id(t), op, Tup(tuple(inner)))
            if r < self.pf.p_nested_tuple + 0.12:
                t = self.ident("t" + base)  # right operand is a tuple-valued field
                self.features.add("tuple-field")
                if rnd.random() < 0.5:
                    lt = self.lit(base)
                    self.lits[t].append(lt.value)
                    return Cmp(lt, op, Id(t))
                return Cmp(Id(a), op, Id(t))
            return Cmp(Id(a), op, self.tuple_term(base, a))
        r = rnd.random()
        if r < self.pf.p_field_field:
            b = self.ident(base)
            self.features.add("field-field")
            return Cmp(Id(a), op, Id(b))
        if rnd.random() < self.pf.p_const_pred:
            # predicates without any field: literal against literal, tuple against tuple, a field against itself
            k = rnd.random()
            if k < 0.4:
                self.features.add("literal-literal")
                return Cmp(self.lit(base), op, self.lit(base))
            if k < 0.7 and op in ("==", "!="):
                self.features.add("tuple-tuple")
                return Cmp(Tup(tuple(self.lit(base) for _ in range(rnd.randint(1, 3)))), op,
                           Tup(tuple(self.lit(base) for _ in range(rnd.randint(1, 3)))))
            self.features.add("field-itself")
            return Cmp(Id(a), op, Id(a))
        if op in ("==", "!=") and rnd.random() < 0.12:
            # cross-kind equality is legal and simply false / true
            other = "str" if base == "num" else "num"
            lt = self.lit(other)
            self.lits[a].append(lt.value)
            self.features.add("cross-kind-eq")
            return Cmp(Id(a), op, lt)
        if op in ("==", "!=") and rnd.random() < 0.08:
            t = self.ident("t" + base)
            tup = Tup(tuple(self.lit(base) for _ in range(rnd.randint(1, 3))))
            self.lits[t].append(tuple(x.value for x in tup.items))
            self.features.add("tuple-eq")
            return Cmp(Id(t), op, tup)
        lt = self.lit(base)
        self.lits[a].append(lt.value)
        if rnd.random() < self.pf.p_lit_left:
            self.features.add("literal-left")
            return Cmp(lt, op, Id(a))
        return Cmp(Id(a), op, lt)

    def pred(self, d=0):
        rnd = self.rnd
        r = rnd.random()
        if d >= self.pf.pred_depth or r < 0.45:
            return self.cmp()
        if r < 0.6:
            self.features.add("not")
            return Not(self.pred(d + 1))
        if r < 0.8:
            self.features.add("and")
            return And(self.pred(d + 1), self.pred(d + 1))
        self.features.add("or")
        return Or(self.pred(d + 1), self.pred(d + 1))

    # -- returns / conditionals -------------------------------------------------------------------
    def weight_text(self):
        rnd = self.rnd
        mode = self.pf.weights
        if mode == "simple":
            return rnd.choice(["1", "1", "2", "3"])
        if mode == "int":
            return rnd.choice(["1", "2", "3", "5", "10", "0", "99", "1000", "007"])
        return rnd.choice(["1", "1", "2", "3", "0", "0.5", "3.4", "10", "0.0", "1.50", "99", "0.25", "7", "0.000000001",
                           "1000000000", "2.0", "33.3"])

    def label(self, ordinal, j, kind):
        if kind == "str":
            return Lit(f"r{ordinal}g{j}", f"r{ordinal}g{j}")
        if kind == "int":
            v = ordinal * 100 + j
            if self.rnd.random() < 0.2 and v:
                return Lit(-v, f"-{v}")
            return Lit(v, str(v))
        v = float(f"{ordinal}.{j:03d}5")
        return Lit(v, f"{ordinal}.{j:03d}5")

    def ret(self):
        rnd = self.rnd
        o = self.nret
        self.nret += 1
        if self.prev_returns and rnd.random() < self.pf.p_repeat_return:
            # the very same group list again in another branch (possibly at another nesting depth)
            self.features.add("repeated-return-list")
            return Ret(rnd.choice(self.prev_returns).groups, o)
        n = rnd.choice([1, 1, 2, 2, 3, self.pf.max_groups])
        kind = rnd.choice(self.pf.label_kinds)
        groups = []
        for j in range(n):
            groups.append(Group(self.label(o, j, kind if rnd.random() < 0.8 else rnd.choice(self.pf.label_kinds)),
                                self.weight_text()))
        if all(g.weight == 0 for g in groups):
            k = rnd.randrange(n)
            groups[k] = Group(groups[k].label, "1")
        # labels must be unique inside the program as *values* (0 == 0.0 would collide)
        seen = set()
        for g in groups:
            assert g.label.value not in seen
            seen.add(g.label.value)
        r = Ret(tuple(groups), o)
        self.prev_returns.append(r)
        return r

    def cond(self, d=0):
        rnd = self.rnd
        if d >= self.pf.max_depth or (d > 0 and rnd.random() < self.pf.p_leaf_cond):
            return self.ret()
        narms = rnd.randint(1, self.pf.max_arms)
        arms = tuple((self.pred(), self.cond(d + 1)) for _ in range(narms))
        else_ = self.cond(d + 1) if rnd.random() < self.pf.p_else else None
        if narms > 1:
            self.features.add("else-if")
        if else_ is None:
            self.features.add("no-else")
        if d > 0:
            self.features.add("nested")
        return If(arms, else_)

    def program(self, force_conditional=None) -> GenProg:
        rnd = self.rnd
        self._reset()
        if force_conditional is None:
            force_conditional = rnd.random() < 0.85
        c = self.cond(0) if force_conditional else self.ret()
        lo, hi = self.pf.splitters
        nsplit = rnd.randint(lo, hi) if hi else 0
        splitters, shared, splitter_only = [], set(), set()
        cond_ids = [n for n, k in self.kinds.items()]
        for _ in range(nsplit):
            if cond_ids and rnd.random() < self.pf.p_shared:
                n = rnd.choice(cond_ids)
                if n in splitters:
                    continue
                shared.add(n)
                splitters.append(n)
            else:
                for _ in range(20):
                    n = rnd.choice(self.names)
                    if n not in self.kinds and n not in splitters:
                        splitters.append(n)
                        splitter_only.add(n)
                        break
        if nsplit and not splitters:
            splitters = ["uid_"]
            splitter_only.add("uid_")
        kinds = dict(self.kinds)
        for n in splitter_only:
            kinds[n] = "any"
        salt = rnd.choice(SALTS) if rnd.random() < self.pf.p_salt else None
        if shared:
            self.features.add("shared-splitter-condition")
        name = rnd.choice(EXP_NAMES + self.names[:0])
        prog = Program(name, salt, splitters or None, c, self.nret, set(self.kinds))
        text = Renderer(rnd, self.pf.redundant_parens).program(prog)
        return GenProg(text, prog, kinds, {k: list(v) for k, v in self.lits.items()}, splitter_only, shared,
                       set(self.features))


# ---------------------------------------------------------------------------------------------


class Renderer:
    """AST -> text.  Parentheses: the minimum the precedence requires, plus (with probability
    `redundant`) extra ones around any *predicate* - never around a term, because `(a)` is a
    one-element tuple in this grammar."""

    def __init__(self, rnd=None, redundant=0.0, compact=False):
        self.rnd = rnd
        self.redundant = redundant
        self.compact = compact

    def _r(self):
        return self.rnd.random() if self.rnd is not None else 1.0

    def term(self, t):
        if isinstance(t, Id):
            return t.name
        if isinstance(t, Lit):
            return L.render_lit(t, self.rnd)
        sep = ", " if self._r() < 0.7 else ","
        return "(" + sep.join(self.term(x) for x in t.items) + ")"

    def pred(self, p, parent=None, side=None):
        if isinstance(p, Cmp):
            sp = " "
            if p.op in ("==", "!=", ">", "<", ">=", "<=") and self._r() < 0.2:
                sp = ""
                # `a<-1` style: no spaces around symbolic operators is legal
            s = f"{self.term(p.left)}{sp}{p.op}{sp}{self.term(p.right)}"
        elif isinstance(p, Not):
            s = "not " + self.pred(p.p, "not")
        elif isinstance(p, And):
            s = self.pred(p.a, "and", "l") + " and " + self.pred(p.b, "and", "r")
        else:
            s = self.pred(p.a, "or", "l") + " or " + self.pred(p.b, "or", "r")
        need = False
        if parent == "not":
            need = isinstance(p, (And, Or))
        elif parent == "and":
            need = isinstance(p, Or) or (side == "r" and isinstance(p, And))
        elif parent == "or":
            need = side == "r" and isinstance(p, Or)
        if need or self._r() < self.redundant:
            s = "(" + s + ")"
            while self._r() < self.redundant * 0.3:
                s = "(" + s + ")"
        return s

    def cond(self, c, ind):
        pad = "" if self.compact else "    " * ind
        nl = " " if self.compact else "\n"
        if isinstance(c, Ret):
            sep = ", " if self.compact or self._r() < 0.5 else ",\n" + pad + "       "
            return pad + "return " + sep.join(
                f"{L.render_lit(g.label, self.rnd)} weighted {g.weight_text}" for g in c.groups) + nl
        out = ""
        for i, (p, b) in enumerate(c.arms):
            if i == 0:
                kw = "if"
            else:
                kw = "else if" if self.rnd is None else self.rnd.choice(["else if", "else if", "else  if", "else\tif", "else\nif"])
            brace = "{" if self._r() < 0.5 else " {"
            lead = pad if i == 0 or self._r() < 0.5 else pad
            out += f"{lead}{kw} {self.pred(p)}{brace}{nl}{self.cond(b, ind + 1)}{pad}}}{nl}"
        if c.else_ is not None:
            out += f"{pad}else{{{nl}{self.cond(c.else_, ind + 1)}{pad}}}{nl}"
        return out

    def program(self, prog: Program):
        nl = " " if self.compact else "\n"
        s = f"def {prog.id}" + ("{" if self._r() < 0.5 else " {") + nl
        if prog.salt is not None:
            s += f"    salt: {L.render_lit(Lit(prog.salt, prog.salt), self.rnd)}{nl}"
        if prog.splitters:
            s += f"    splitters: {', '.join(prog.splitters)}{nl}"
        s += self.cond(prog.cond, 1) + "}" + nl
        return s


def render_canonical(prog: Program) -> str:
    return Renderer(None, 0.0, compact=True).program(prog)
