"""Input records for generated programs: every literal a field is compared with, its nearest
neighbours of the same kind, the look-alike of another kind, plus random values (DESIGN.md 2.3)."""

from __future__ import annotations

import math

SPLITTER_VALUES = [
    "u1", "user-42", " padded ", "user-0 ", "\tx", "x\n", "", "0", "1", "123e4567-e89b-12d3-a456-426614174000", "00000000-0000-0000-0000-00000000002a",
    "018f3c4e-9a7b-7def-8123-456789abcdef", "user@example.com", "2024-05-01T12:00:00Z", "0x1F", "1e3", "+7", "007", "é", "josé", "日本語", "\U0001f600", "a b", "it's", 'q"q', "\\", "\x00",
    0, 1, -1, 42, 2**31, 2**63, 10**30, -(10**20), 1.0, 0.5, -0.0, 1e22, 1e-7, float("inf"), float("nan"),
    True, False, None,
]


class StrWithOwnStr(str):
    """a str subclass whose str() is not its characters (like a `class Country(str, Enum)` member)"""

    def __str__(self):
        return "Country." + str.__str__(self).upper()


class IntWithOwnStr(int):
    def __str__(self):
        return "#%d" % int(self)


class Opaque:
    """an arbitrary object: its str() is whatever __str__ says"""

    def __init__(self, s):
        self.s = s

    def __str__(self):
        return self.s

    def __repr__(self):
        return "Opaque(%r)" % self.s


def exotic_splitter_values():
    """values whose str() differs from what a shortcut (isinstance(v, str), '%d' % v, repr) would produce; the published
    scheme says str()"""
    from decimal import Decimal
    from fractions import Fraction

    return [StrWithOwnStr("us"), StrWithOwnStr(""), IntWithOwnStr(7), Opaque("u-1"), Opaque(""), Decimal("1.10"), Decimal("1E+3"),
            Fraction(1, 3), Fraction(4, 2), b"bytes", bytearray(b"ba"), (1, "a"), [1, 2], {"k": 1}, frozenset([1]), range(3), 1 + 2j]


def _exotic_numbers(v):
    """the same neighbourhood in number types a caller may well pass: Decimal and Fraction compare exactly with ints and
    floats in Python, so the reference semantics are defined for them"""
    from decimal import Decimal
    from fractions import Fraction

    out = []
    try:
        if isinstance(v, int) and not isinstance(v, bool) and abs(v) < 10**30:
            out += [Decimal(v), Decimal(v) + Decimal("0.00000000000000000001"), Decimal(v) - Decimal("1E-25"), Fraction(v),
                    Fraction(v) + Fraction(1, 10**20), Fraction(2 * v - 1, 2)]
        elif isinstance(v, float) and math.isfinite(v):
            out += [Decimal(v), Decimal(v) + Decimal("1E-30"), Fraction(v), Fraction(v) - Fraction(1, 10**30), Decimal(repr(v))]
    except Exception:  # noqa: BLE001
        pass
    return out


def _num_neighbours(v):
    out = [v]
    if isinstance(v, bool):
        return out
    if isinstance(v, int):
        out += [v + 1, v - 1]
        if abs(v) < 2**52:
            out += [v + 0.5, v - 0.5, float(v)]
        else:
            out += [float(v)]
    elif isinstance(v, float) and math.isfinite(v):
        out += [math.nextafter(v, math.inf), math.nextafter(v, -math.inf), v + 1, v - 1]
        if v == int(v) and abs(v) < 2**62:
            out.append(int(v))
    return out


def _str_neighbours(s):
    out = [s, s + "x", s[:-1] if s else "x", s.swapcase() if s.swapcase() != s else s + " "]
    return out


def _lookalike_num(s):
    """numeric value a sloppy implementation would read out of the string s"""
    out = []
    try:
        out.append(int(s))
    except (ValueError, TypeError):
        pass
    try:
        f = float(s)
        out.append(f)
    except (ValueError, TypeError, OverflowError):
        pass
    return out


def candidates(kind, lits, rnd):
    c = []
    if kind == "num":
        c += [rnd.randint(-3, 35), rnd.random() * 30, 0, 1]
        for v in lits:
            if isinstance(v, (int, float)) and not isinstance(v, bool):
                c += _num_neighbours(v)
                if rnd.random() < 0.35:
                    c += _exotic_numbers(v)
            elif isinstance(v, str):
                c += _lookalike_num(v)
        if rnd.random() < 0.03:
            c.append(float("nan"))
        if rnd.random() < 0.05:
            c.append(rnd.choice([True, False]))
    elif kind == "str":
        c += [rnd.choice(["US", "CA", "a", "b", "zz", "", "m"]), "zz"]
        for v in lits:
            if isinstance(v, str):
                c += _str_neighbours(v)
            elif isinstance(v, (int, float)):
                c += [str(v), repr(v)]
    elif kind in ("tnum", "tstr"):
        base = "num" if kind == "tnum" else "str"
        flat = []
        for v in lits:
            if isinstance(v, tuple):
                c += [v, v + v[:1], v[:-1] if len(v) > 1 else v + v, tuple(reversed(v)) if len(v) > 1 else v]
                flat += list(v)
            else:
                flat.append(v)
        members = candidates(base, flat, rnd)
        for _ in range(3):
            c.append(tuple(rnd.choice(members) for _ in range(rnd.randint(0, 4))))
        for v in flat:
            c.append((v,))
            c.append(tuple([rnd.choice(members), v]))
        c.append(())
        # containers need not be tuples: `x in tags` is just as natural with a list
        c += [list(t) for t in c[-6:] if isinstance(t, tuple)]
    else:  # 'any': splitter-only field
        c += SPLITTER_VALUES
        c += [rnd.randint(0, 10**9), "id%d" % rnd.randint(0, 10**6)]
    return c


def gen_env(gp, rnd, unit=None):
    """One input record for GenProg gp.  `unit` (if given) is assigned to the first splitter so
    that a family of calls differs in a controlled way."""
    env = {}
    for name, kind in gp.kinds.items():
        cs = candidates(kind, gp.lits.get(name, []), rnd)
        env[name] = rnd.choice(cs)
    if unit is not None and gp.ast.splitters:
        so = [n for n in gp.ast.splitters if n in gp.splitter_only]
        if so:
            env[so[0]] = unit
    return env


def env_key(env):
    """Canonical, type-aware rendering of an input record (floats by repr, so -0.0 != 0.0)."""
    return tuple(sorted((k, type(v).__name__, repr(v)) for k, v in env.items()))
