"""Literal pools (DESIGN.md 2.3).  Strings never contain LF; a string containing both quote
characters is not expressible and is never produced."""

from __future__ import annotations

from pyabv.ref.parse import Lit

PLAIN_WORDS = ["US", "CA", "a", "b", "xyz", "control", "variant_a", "Setting 1.1.1", "zz", "m"]

TRICKY_STRINGS = [
    "", " ", "02134", "007", "0", "1", "-1", "1.0", "1.50", "inf", "-inf", "nan", "NaN", "Infinity", "1e5", "1E5",
    "1_000", "0x10", " 12 ", "١٢", "None", "True", "False", "null", "+5", "2024_01", "1e999", "-Infinity", "+NaN", ".5", "5.", "1e-3",
    "\u00e9'x", "'\u00e9", "\u65e5\u672c's", '\u00e9"x', "\x7f'",
    "it's", 'say "hi"', "C:\\temp", "\\", "\\\\", "\\n", "\\t", "\\x41", "\\N{BULLET}", "\\u0027", "\\'", '\\"',
    "a\\", "'", '"', "''", '""', "'''", '"""',
    "é", "e\u0301", "日本", "\U0001f600", "\u202eabc", "ß", "İ", "\x00", "a\x00b", "\r", "a\rb", "\t", "\x0b", "\x0c",
    "\x1b", "\x7f", "\x85", "\u2028", "\u2029", "\ufeff",
    "//c", "/*c*/", "/*", "*/", "#", "# x", "%s", "%(a)s", "%", "{0}", "{}", "{a}", "{{", "$x", "`x`",
    "x y", "a,b", "(a)", "(1,2)", "[1]", "a:b", "a;b", "def", "return", "weighted", "not in", "else if",
    "a" * 300,
    "$$", "$key", "${name}", "$args", "$1", "name", "id", "group_definition", "__class__", "self",
    "a    b", "        ", "x\t\ty", "  lead", "trail  ", "a\u00a0\u00a0\u00a0\u00a0b", "a \t b",
]

NUM_TEXTS_INT = ["0", "1", "2", "7", "10", "18", "21", "99", "100", "007", "00", "2134", "9007199254740992",
                 "9007199254740993", "18446744073709551616", "1" + "0" * 30, "1" + "0" * 40, "4294967296"]
NUM_TEXTS_FLOAT = ["0.0", "0.5", "1.0", "1.5", "1.50", "2.25", "3.14", "18.0", "00.50", "0.1", "0.30000000000000004",
                   "123456789.123456", "0.000000001", "9007199254740993.0", "1.7976931348623157",
                   "100000000000000000000.0"]


def expressible(s: str) -> bool:
    return "\n" not in s and not ("'" in s and '"' in s)


def str_lit(s: str) -> Lit:
    assert expressible(s), s
    return Lit(s, s)


def num_lit(text: str, neg=False) -> Lit:
    v = float(text) if "." in text else int(text)
    if neg:
        v = -v
        return Lit(v, "-" + text)
    return Lit(v, text)


def render_lit(lit: Lit, rnd=None) -> str:
    v = lit.value
    if isinstance(v, str):
        if '"' in v:
            q = "'"
        elif "'" in v:
            q = '"'
        else:
            q = '"' if (rnd is None or rnd.random() < 0.5) else "'"
        return q + v + q
    t = lit.text
    if t.startswith("-"):
        gap = "" if rnd is None else rnd.choice(["", "", " ", "  "])
        return "-" + gap + t[1:]
    return t


def random_string(rnd, maxlen=12, alphabet=None) -> str:
    """Random expressible string over a hostile alphabet."""
    alphabet = alphabet or (
        "ab01 _-'\"\\(){}+%#,:./*nxNu\t\ré日\U0001f600\x00"
    )
    for _ in range(20):
        s = "".join(rnd.choice(alphabet) for _ in range(rnd.randint(0, maxlen)))
        if expressible(s):
            return s
    return "s"


def random_unicode_string(rnd, maxlen=200) -> str:
    """Samples all planes (surrogates and LF excluded)."""
    out = []
    n = rnd.randint(0, maxlen)
    quote = None
    while len(out) < n:
        r = rnd.random()
        if r < 0.3:
            c = chr(rnd.randint(0x20, 0x7E))
        elif r < 0.4:
            c = chr(rnd.randint(0, 0x1F))
        elif r < 0.8:
            c = chr(rnd.randint(0x80, 0xFFFF))
        else:
            c = chr(rnd.randint(0x10000, 0x10FFFF))
        if c == "\n" or 0xD800 <= ord(c) <= 0xDFFF:
            continue
        if c in "'\"":
            if quote is None:
                quote = c
            elif c != quote:
                continue
        out.append(c)
    return "".join(out)


def gen_num(rnd, hard=0.3) -> Lit:
    r = rnd.random()
    if r < hard / 2:
        t = rnd.choice(NUM_TEXTS_INT)
    elif r < hard:
        t = rnd.choice(NUM_TEXTS_FLOAT)
    elif r < hard + (1 - hard) * 0.7:
        t = str(rnd.randint(0, 30))
    else:
        t = f"{rnd.randint(0, 30)}.{rnd.choice(['0', '5', '25', '125', '75'])}"
    return num_lit(t, neg=rnd.random() < 0.2)


def gen_str(rnd, hard=0.4) -> Lit:
    r = rnd.random()
    if r < hard * 0.7:
        return str_lit(rnd.choice(TRICKY_STRINGS))
    if r < hard:
        return str_lit(random_string(rnd))
    return str_lit(rnd.choice(PLAIN_WORDS))
