"""The published bucketing scheme, from the statement of C12 / C03 alone, in exact rationals.

position k  = first 32 bits of MD5( utf8( salt + ''.join(str(v) for splitter names in sorted order) ) )
group i     iff  k/2^32 * W  in  [c_(i-1), c_i)      (c = exact cumulative sums of the weight texts)
"""

from __future__ import annotations

import hashlib
from fractions import Fraction

GRID = 2**32


def key_string(salt, splitters, env) -> str:
    # (a field named twice in the splitters clause is still one field: the scheme speaks of the fields, in name order)
    return (salt or "") + "".join(str(env[n]) for n in sorted(set(splitters)))


def position_of_key(key: str) -> int:
    return int.from_bytes(hashlib.md5(key.encode("utf-8")).digest()[:4], "big")


def position(salt, splitters, env) -> int:
    return position_of_key(key_string(salt, splitters, env))


def cum_shares(weights):
    """exact boundaries b_0=0 <= b_1 <= ... <= b_n=1 as Fractions"""
    W = sum(weights)
    out, c = [Fraction(0)], Fraction(0)
    for w in weights:
        c += w
        out.append(c / W)
    return out


def exact_index(weights, k: int) -> int:
    """The group selected by exact arithmetic for grid point k."""
    b = cum_shares(weights)
    u = Fraction(k, GRID)
    for i in range(len(weights)):
        if b[i] <= u < b[i + 1]:
            return i
    raise AssertionError("u outside [0,1)")


def is_exact_class(weights) -> bool:
    """All weights integer-valued and W <= 65536: every float operation of a straightforward
    implementation is exact, so no tolerance is granted."""
    return all(w.denominator == 1 for w in weights) and sum(weights) <= 65536


def allowed_indices(weights, k: int):
    """Set of group indices an implementation may return for grid point k.

    exact class: the single exact group; otherwise every positive-weight group whose exact
    interval [b_(i-1), b_i) intersects [(k-1)/2^32, (k+1)/2^32] (one grid point per boundary,
    expressed on positions).  A zero-weight group is never allowed."""
    if is_exact_class(weights):
        return {exact_index(weights, k)}
    b = cum_shares(weights)
    lo, hi = Fraction(k - 1, GRID), Fraction(k + 1, GRID)
    out = set()
    for i, w in enumerate(weights):
        if w > 0 and b[i] <= hi and b[i + 1] > lo:
            out.add(i)
    return out


def boundary_points(weights):
    """Grid points ceil(b_i * 2^32) for the interior boundaries (the first grid point that
    belongs to the next group), de-duplicated."""
    b = cum_shares(weights)
    pts = []
    for x in b[1:-1]:
        v = x * GRID
        kb = -((-v.numerator) // v.denominator)  # ceil
        pts.append(int(kb))
    return pts


def min_boundary_distance(weights, k: int) -> Fraction:
    """Distance (in grid points) from k to the nearest interior boundary."""
    b = cum_shares(weights)
    best = None
    for x in b[1:-1]:
        d = abs(x * GRID - k)
        if best is None or d < best:
            best = d
    return best if best is not None else Fraction(GRID)


class Partition:
    """Same decisions as exact_index / allowed_indices, precomputed in integers for bulk use
    (cross-checked against the Fraction versions by selftest)."""

    def __init__(self, weights):
        from bisect import bisect_left, bisect_right

        self._bl, self._br = bisect_left, bisect_right
        self.w = list(weights)
        self.n = len(self.w)
        b = cum_shares(self.w)
        self.b = b
        self.ceil = []
        for x in b:
            v = x * GRID
            self.ceil.append(int(-((-v.numerator) // v.denominator)))
        self.exact_class = is_exact_class(self.w)

    def exact(self, k):
        return min(self._br(self.ceil, k, 1) - 1, self.n - 1)

    def allowed(self, k):
        if self.exact_class:
            return {self.exact(k)}
        hi = min(self._br(self.ceil, k + 1) - 1, self.n - 1)
        lo = max(self._bl(self.ceil, k) - 1, 0)
        return {i for i in range(lo, hi + 1) if self.w[i] > 0}

    def span(self, i):
        """grid points strictly inside group i: [ceil(b_i*2^32), ceil(b_(i+1)*2^32))"""
        return self.ceil[i], self.ceil[i + 1]

    def near_boundary(self, k, d=2):
        j = self._bl(self.ceil, k)
        for t in (j - 1, j, j + 1):
            if 0 < t < self.n and abs(self.ceil[t] - k) <= d:
                return True
        return k <= d or k >= GRID - 1 - d
