"""Independent recursive-descent parser for the documented grammar (README.rst "Formal Grammar"
plus the term / tuple / literal / return rules described in prose and examples).

predicate precedence: or < and < not < comparison; parentheses override.  ``(`` starts a tuple
term iff the parenthesised list of terms is followed by a comparison operator or is itself the
right operand of one; otherwise it is a parenthesised predicate.  Decided by backtracking, which
is exact because a tuple never contains a comparison operator and a predicate always does.
"""

from __future__ import annotations

from dataclasses import dataclass, field
from decimal import Decimal
from fractions import Fraction
from typing import Any

from .lex import Ambiguous, Reject, tokenize  # noqa: F401  (re-exported)

CMP_KINDS = {"EQ": "==", "NE": "!=", "GE": ">=", "LE": "<=", "GT": ">", "LT": "<", "IN": "in", "NOT_IN": "not in"}


@dataclass(frozen=True)
class Id:
    name: str


@dataclass(frozen=True)
class Lit:
    value: Any  # exact Python value: str, int (any size) or float
    text: str  # source text of the literal (digits as written, sign normalised to '-' prefix)

    def __eq__(self, other):
        return isinstance(other, Lit) and type(self.value) is type(other.value) and repr(self.value) == repr(other.value)

    def __hash__(self):
        return hash((type(self.value).__name__, repr(self.value)))


@dataclass(frozen=True)
class Tup:
    items: tuple


@dataclass(frozen=True)
class Cmp:
    left: Any
    op: str
    right: Any


@dataclass(frozen=True)
class Not:
    p: Any


@dataclass(frozen=True)
class And:
    a: Any
    b: Any


@dataclass(frozen=True)
class Or:
    a: Any
    b: Any


@dataclass(frozen=True)
class Group:
    label: Lit
    weight_text: str

    @property
    def weight(self) -> Fraction:
        return Fraction(Decimal(self.weight_text))


@dataclass(frozen=True)
class Ret:
    groups: tuple
    ordinal: int  # position of this return statement in source order


@dataclass(frozen=True)
class If:
    arms: tuple  # ((pred, cond), ...)   first is `if`, the rest `else if`
    else_: Any  # cond or None


@dataclass
class Program:
    id: str
    salt: Any  # str or None
    splitters: Any  # list[str] or None
    cond: Any
    n_returns: int = 0
    identifiers: set = field(default_factory=set)  # identifiers used in predicates


class _P:
    def __init__(self, toks):
        self.t = toks
        self.i = 0
        self.nret = 0
        self.ids = set()

    def pk(self, k=0):
        j = self.i + k
        return self.t[j].kind if j < len(self.t) else "EOF"

    def eat(self, kind):
        if self.pk() != kind:
            raise Reject(f"expected {kind}, got {self.pk()} at token {self.i}")
        tok = self.t[self.i]
        self.i += 1
        return tok

    def program(self):
        self.eat("DEF")
        name = self.eat("ID").text
        self.eat("LB")
        salt = None
        if self.pk() == "SALT":
            self.eat("SALT")
            self.eat("COLON")
            salt = self.eat("STR").text
        splitters = None
        if self.pk() == "SPLITTERS":
            self.eat("SPLITTERS")
            self.eat("COLON")
            splitters = [self.eat("ID").text]
            while self.pk() == "COMMA":
                self.eat("COMMA")
                splitters.append(self.eat("ID").text)
        cond = self.cond()
        self.eat("RB")
        if self.pk() != "EOF":
            raise Reject("text after the definition")
        return Program(name, salt, splitters, cond, self.nret, self.ids)

    def cond(self):
        if self.pk() == "RETURN":
            self.eat("RETURN")
            ordinal = self.nret
            self.nret += 1
            groups = [self.group()]
            while self.pk() == "COMMA":
                self.eat("COMMA")
                groups.append(self.group())
            return Ret(tuple(groups), ordinal)
        self.eat("IF")
        arms = []
        p = self.pred()
        self.eat("LB")
        c = self.cond()
        self.eat("RB")
        arms.append((p, c))
        while self.pk() == "ELIF":
            self.eat("ELIF")
            p = self.pred()
            self.eat("LB")
            c = self.cond()
            self.eat("RB")
            arms.append((p, c))
        else_ = None
        if self.pk() == "ELSE":
            self.eat("ELSE")
            self.eat("LB")
            else_ = self.cond()
            self.eat("RB")
        return If(tuple(arms), else_)

    def group(self):
        lab = self.literal()
        self.eat("WEIGHTED")
        if self.pk() not in ("INT", "FLOAT"):
            raise Reject("weight expected")
        w = self.t[self.i].text
        self.i += 1
        return Group(lab, w)

    def literal(self):
        neg = False
        if self.pk() == "MINUS":
            self.i += 1
            neg = True
            if self.pk() not in ("INT", "FLOAT"):
                raise Reject("number expected after '-'")
        k = self.pk()
        if k == "STR":
            tok = self.eat("STR")
            return Lit(tok.text, tok.text)
        if k == "INT":
            tok = self.eat("INT")
            v = int(tok.text)
            return Lit(-v if neg else v, ("-" if neg else "") + tok.text)
        if k == "FLOAT":
            tok = self.eat("FLOAT")
            v = float(tok.text)
            return Lit(-v if neg else v, ("-" if neg else "") + tok.text)
        raise Reject(f"literal expected, got {k}")

    # predicates -----------------------------------------------------------------------------
    def pred(self):
        a = self.andp()
        while self.pk() == "OR":
            self.i += 1
            a = Or(a, self.andp())
        return a

    def andp(self):
        a = self.notp()
        while self.pk() == "AND":
            self.i += 1
            a = And(a, self.notp())
        return a

    def notp(self):
        if self.pk() == "NOT":
            self.i += 1
            return Not(self.notp())
        save = self.i
        try:
            left = self.term()
            if self.pk() not in CMP_KINDS:
                raise Reject("comparison operator expected")
            op = CMP_KINDS[self.pk()]
            self.i += 1
            right = self.term()
            return Cmp(left, op, right)
        except Reject:
            self.i = save
        self.eat("LP")
        p = self.pred()
        self.eat("RP")
        return p

    def term(self):
        k = self.pk()
        if k == "ID":
            name = self.eat("ID").text
            self.ids.add(name)
            return Id(name)
        if k == "LP":
            self.i += 1
            items = [self.term()]
            while self.pk() == "COMMA":
                self.i += 1
                items.append(self.term())
            self.eat("RP")
            return Tup(tuple(items))
        return self.literal()


def parse(text: str) -> Program:
    """-> Program; raises Reject / Ambiguous."""
    toks = tokenize(text)
    p = _P(toks)
    prog = p.program()
    return prog


def accepts(text: str):
    """True / False / None (ambiguous)."""
    try:
        parse(text)
        return True
    except Ambiguous:
        return None
    except Reject:
        return False
    except RecursionError:
        return None


def returns_of(cond):
    """All Ret nodes in source order."""
    if isinstance(cond, Ret):
        return [cond]
    out = []
    for _, c in cond.arms:
        out.extend(returns_of(c))
    if cond.else_ is not None:
        out.extend(returns_of(cond.else_))
    return out
