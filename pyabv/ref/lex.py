"""Independent scanner for the documented experiment language.

Written from src/pyab_experiment/language/README.rst, docs/experiment_format.rst and the
property statements; shares no code with the repository (no sly, no pydantic).

Three answers: a token list, ``Reject`` (the text is outside the documented lexical grammar),
``Ambiguous`` (the documentation does not determine the answer - no oracle ever demands anything
on such an input and the generators avoid them).
"""

from __future__ import annotations

from collections import namedtuple


class Reject(Exception):
    pass


class Ambiguous(Exception):
    pass


Tok = namedtuple("Tok", "kind text start end")

KEYWORDS = {
    "def": "DEF", "salt": "SALT", "splitters": "SPLITTERS", "if": "IF", "else": "ELSE",
    "weighted": "WEIGHTED", "return": "RETURN", "and": "AND", "or": "OR", "not": "NOT", "in": "IN",
}
OPERATORS = (
    ("==", "EQ"), ("!=", "NE"), (">=", "GE"), ("<=", "LE"), (">", "GT"), ("<", "LT"),
    ("(", "LP"), (")", "RP"), ("-", "MINUS"), (",", "COMMA"), (":", "COLON"), ("{", "LB"), ("}", "RB"),
)
_ID_START = set("abcdefghijklmnopqrstuvwxyzABCDEFGHIJKLMNOPQRSTUVWXYZ_")
_ID_CONT = _ID_START | set("0123456789")
_DIGITS = set("0123456789")
_PLAIN_WS = set(" \t\r\n\f")


def _word_end(s, i):
    n = len(s)
    while i < n and s[i] in _ID_CONT:
        i += 1
    return i


def tokenize(s: str):
    """-> list[Tok]; raises Reject / Ambiguous."""
    i, n, out = 0, len(s), []
    while i < n:
        c = s[i]
        if c.isspace():
            i += 1
            continue
        if s.startswith("//", i):
            j = s.find("\n", i)
            i = n if j < 0 else j
            continue
        if s.startswith("/*", i):
            j = s.find("*/", i + 2)
            if j < 0:
                if "/*" in s[i + 2:]:
                    raise Ambiguous("nested comment opener")
                raise Reject("unterminated block comment")
            if "/*" in s[i + 2: j]:
                # README note 4 claims nesting "support": which */ closes is not determined
                raise Ambiguous("nested comment opener")
            i = j + 2
            continue
        if c in "\"'":
            j = i + 1
            while j < n and s[j] != c and s[j] != "\n":
                j += 1
            if j >= n or s[j] != c:
                raise Reject("unterminated string literal")
            out.append(Tok("STR", s[i + 1: j], i, j + 1))
            i = j + 1
            continue
        if c in _ID_START:
            j = _word_end(s, i)
            w = s[i:j]
            if j < n and not s[j].isascii() and (s[j].isalnum()):
                # a non-ASCII letter/digit glued to a word: not a token character -> illegal
                if s[j].isdecimal():
                    raise Ambiguous("non-ASCII digit")
                raise Reject(f"illegal character {s[j]!r}")
            if w == "elseif":
                raise Ambiguous("'elseif' as one word: keyword regex and identifier rule tie")
            if w == "else":
                k = j
                while k < n and s[k].isspace():
                    k += 1
                if s.startswith("if", k) and _word_end(s, k) == k + 2:
                    if k == j:
                        raise Ambiguous("elseif")  # unreachable (w would be 'elseif'), kept for clarity
                    if any(ch not in _PLAIN_WS for ch in s[j:k]):
                        raise Ambiguous("exotic whitespace inside 'else if'")
                    if k + 2 < n and not s[k + 2].isascii() and s[k + 2].isalnum():
                        raise Ambiguous("non-ASCII word character after 'else if'")
                    out.append(Tok("ELIF", s[i: k + 2], i, k + 2))
                    i = k + 2
                    continue
            if w == "not":
                k = j
                while k < n and s[k].isspace():
                    k += 1
                if k > j and s.startswith("in", k) and _word_end(s, k) == k + 2:
                    if any(ch not in _PLAIN_WS for ch in s[j:k]):
                        raise Ambiguous("exotic whitespace inside 'not in'")
                    if k + 2 < n and not s[k + 2].isascii() and s[k + 2].isalnum():
                        raise Ambiguous("non-ASCII word character after 'not in'")
                    out.append(Tok("NOT_IN", s[i: k + 2], i, k + 2))
                    i = k + 2
                    continue
            out.append(Tok(KEYWORDS.get(w, "ID"), w, i, j))
            i = j
            continue
        if c in _DIGITS:
            j = i
            while j < n and s[j] in _DIGITS:
                j += 1
            kind = "INT"
            if j + 1 < n and s[j] == "." and s[j + 1] in _DIGITS:
                j += 1
                while j < n and s[j] in _DIGITS:
                    j += 1
                kind = "FLOAT"
            if j < n and s[j].isdecimal() and s[j] not in _DIGITS:
                raise Ambiguous("non-ASCII digit")
            out.append(Tok(kind, s[i:j], i, j))
            i = j
            continue
        if c.isdecimal():
            raise Ambiguous("non-ASCII digit")
        for op, kind in OPERATORS:
            if s.startswith(op, i):
                out.append(Tok(kind, op, i, i + len(op)))
                i += len(op)
                break
        else:
            raise Reject(f"illegal character {c!r} at {i}")
    return out


def kinds(s: str):
    return [(t.kind, t.text) for t in tokenize(s)]
