"""Reference routing: if / else-if / else with Python's comparison and boolean operators applied
to the exact literal values."""

from __future__ import annotations

from .parse import And, Cmp, Id, If, Lit, Not, Or, Ret, Tup


class Unroutable(Exception):
    pass


class MissingField(Exception):
    pass


def term_value(t, env):
    if isinstance(t, Id):
        if t.name not in env:
            raise MissingField(t.name)
        return env[t.name]
    if isinstance(t, Lit):
        return t.value
    if isinstance(t, Tup):
        return tuple(term_value(x, env) for x in t.items)
    raise TypeError(t)


def holds(p, env) -> bool:
    if isinstance(p, Cmp):
        a = term_value(p.left, env)
        b = term_value(p.right, env)
        op = p.op
        if op == "==":
            return bool(a == b)
        if op == "!=":
            return bool(a != b)
        if op == ">":
            return bool(a > b)
        if op == "<":
            return bool(a < b)
        if op == ">=":
            return bool(a >= b)
        if op == "<=":
            return bool(a <= b)
        if op == "in":
            return a in b
        if op == "not in":
            return a not in b
        raise ValueError(op)
    if isinstance(p, Not):
        return not holds(p.p, env)
    if isinstance(p, And):
        return holds(p.a, env) and holds(p.b, env)
    if isinstance(p, Or):
        return holds(p.a, env) or holds(p.b, env)
    raise TypeError(p)


def route(cond, env) -> Ret:
    """The return statement selected for env; raises Unroutable when none is."""
    while True:
        if isinstance(cond, Ret):
            return cond
        assert isinstance(cond, If)
        for p, c in cond.arms:
            if holds(p, env):
                cond = c
                break
        else:
            if cond.else_ is None:
                raise Unroutable()
            cond = cond.else_


def leaves(p):
    """Comparison leaves of a predicate, left to right."""
    if isinstance(p, Cmp):
        return [p]
    if isinstance(p, Not):
        return leaves(p.p)
    return leaves(p.a) + leaves(p.b)


def predicates_of(cond):
    if isinstance(cond, Ret):
        return []
    out = []
    for p, c in cond.arms:
        out.append(p)
        out.extend(predicates_of(c))
    if cond.else_ is not None:
        out.extend(predicates_of(cond.else_))
    return out
