"""Child side of the cross-process transcript comparison (C01, probe P7).

usage: python -m pyabv.xproc_child <corpus.json> <out.json> [--setlocale]
Evaluates every (program, input) of the corpus with a fresh import of the working tree and
writes the transcript.  Everything read and written is ASCII JSON, so the child's locale and
default encoding cannot affect the harness itself."""

import json
import sys


def main():
    corpus_path, out_path = sys.argv[1], sys.argv[2]
    info = {}
    if "--setlocale" in sys.argv:
        import locale

        try:
            info["setlocale"] = locale.setlocale(locale.LC_ALL, "")
        except locale.Error as e:
            info["setlocale"] = "error: " + str(e)
    from pyabv.impl import impl
    from pyabv.run import assert_tree, jsonable, unjson

    info["module_file"] = assert_tree()
    import locale as _l
    import os

    info["preferred_encoding"] = _l.getpreferredencoding(False)
    info["fs_encoding"] = sys.getfilesystemencoding()
    info["hashseed_env"] = os.environ.get("PYTHONHASHSEED")
    info["hash_of_a"] = hash("a")
    info["cwd"] = os.getcwd().encode("utf-8", "surrogateescape").decode("ascii", "backslashreplace")
    info["flags"] = dict(optimize=sys.flags.optimize, dev_mode=sys.flags.dev_mode, utf8_mode=sys.flags.utf8_mode)
    with open(corpus_path, encoding="ascii") as f:
        corpus = json.load(f)
    im = impl()
    transcript = []
    reverse_first = "--reverse-first" in sys.argv
    info["order"] = "reverse-first" if reverse_first else "forward-first"
    for prog in corpus["programs"]:
        c = im.construct(prog["text"])
        if c[0] != "ok":
            transcript.append({"construct": list(c[1:])})
            continue
        rows = []
        inputs = prog["inputs"]
        order = list(range(len(inputs)))
        if reverse_first:
            order.reverse()
        res = {}
        for i in order:
            out = im.call(c[1], unjson(inputs[i]))
            res[i] = json.dumps(jsonable(out), sort_keys=True, ensure_ascii=True)
        rows = [res[i] for i in range(len(inputs))]
        # second pass in reverse order on a second instance
        c2 = im.construct(prog["text"])
        rows2 = [json.dumps(jsonable(im.call(c2[1], unjson(env))), sort_keys=True, ensure_ascii=True) for env in reversed(prog["inputs"])]
        transcript.append({"rows": rows, "rows_reversed_second_instance": rows2[::-1]})
    with open(out_path, "w", encoding="ascii") as f:
        json.dump({"info": info, "transcript": transcript}, f, ensure_ascii=True)


if __name__ == "__main__":
    main()
