"""Child side of the cross-process transcript comparison (C01, probe P7).

usage: python -m pyabv.xproc_child <corpus.json> <out.json> [--setlocale]
Evaluates every (program, input) of the corpus with a fresh import of the working tree and
writes the transcript.  Everything read and written is ASCII JSON, so the child's locale and
default encoding cannot affect the harness itself."""

import json
import sys


def main():
    corpus_path, out_path = sys.argv[1], sys.argv[2]
    info = {}
    if "--setlocale" in sys.argv:
        import locale

        try:
            info["setlocale"] = locale.setlocale(locale.LC_ALL, "")
        except locale.Error as e:
            info["setlocale"] = "error: " + str(e)
    if "--fake-world" in sys.argv:
        # a different "world" as seen through the standard library: clock shifted by ~400 days, other pid / host /
        # user, a different state of the global random generator.  Patched before the repository is imported.
        import datetime as _dt
        import os as _os
        import random as _random
        import socket as _socket
        import time as _time

        shift = 400 * 86400 + 12345.678
        _rt, _rtn, _rm = _time.time, _time.time_ns, _time.monotonic
        _time.time = lambda: _rt() + shift
        _time.time_ns = lambda: _rtn() + int(shift * 1e9)
        _time.monotonic = lambda: _rm() * 3600.0 + 98765.4  # ... and an hour passes per second
        _rp, _rpn, _rmn = _time.perf_counter, _time.perf_counter_ns, _time.monotonic_ns
        _time.perf_counter = lambda: _rp() * 3600.0
        _time.perf_counter_ns = lambda: _rpn() * 3600
        _time.monotonic_ns = lambda: _rmn() * 3600 + 98765400000000

        class _FakeDateTime(_dt.datetime):
            @classmethod
            def now(cls, tz=None):
                return _dt.datetime.fromtimestamp(_rt() + shift, tz)

            @classmethod
            def utcnow(cls):
                return _dt.datetime.fromtimestamp(_rt() + shift, _dt.timezone.utc).replace(tzinfo=None)

            @classmethod
            def today(cls):
                return cls.now()

        class _FakeDate(_dt.date):
            @classmethod
            def today(cls):
                return _FakeDateTime.now().date()

        _dt.datetime = _FakeDateTime
        _dt.date = _FakeDate
        _os.getpid = lambda: 4242
        _os.getppid = lambda: 4241
        _socket.gethostname = lambda: "another-host"
        _os.environ.update(USER="someone-else", LOGNAME="someone-else", HOSTNAME="another-host", HOME="/nonexistent-home")
        _random.seed(987654321)
        info["fake_world"] = True
    from pyabv.impl import impl
    from pyabv.run import assert_tree, jsonable, unjson

    info["module_file"] = assert_tree()
    import locale as _l
    import os

    info["preferred_encoding"] = _l.getpreferredencoding(False)
    info["fs_encoding"] = sys.getfilesystemencoding()
    info["hashseed_env"] = os.environ.get("PYTHONHASHSEED")
    info["hash_of_a"] = hash("a")
    info["cwd"] = os.getcwd().encode("utf-8", "surrogateescape").decode("ascii", "backslashreplace")
    info["flags"] = dict(optimize=sys.flags.optimize, dev_mode=sys.flags.dev_mode, utf8_mode=sys.flags.utf8_mode)
    with open(corpus_path, encoding="ascii") as f:
        corpus = json.load(f)
    im = impl()
    transcript = []
    reverse_first = "--reverse-first" in sys.argv
    info["order"] = "reverse-first" if reverse_first else "forward-first"
    for prog in corpus["programs"]:
        c = im.construct(prog["text"])
        if c[0] != "ok":
            transcript.append({"construct": list(c[1:])})
            continue
        rows = []
        inputs = prog["inputs"]
        order = list(range(len(inputs)))
        if reverse_first:
            order.reverse()
        res = {}
        for i in order:
            out = im.call(c[1], unjson(inputs[i]))
            res[i] = json.dumps(jsonable(out), sort_keys=True, ensure_ascii=True)
        rows = [res[i] for i in range(len(inputs))]
        # second pass in reverse order on a second instance
        c2 = im.construct(prog["text"])
        rows2 = [json.dumps(jsonable(im.call(c2[1], unjson(env))), sort_keys=True, ensure_ascii=True) for env in reversed(prog["inputs"])]
        transcript.append({"rows": rows, "rows_reversed_second_instance": rows2[::-1]})
    with open(out_path, "w", encoding="ascii") as f:
        json.dump({"info": info, "transcript": transcript}, f, ensure_ascii=True)


if __name__ == "__main__":
    main()
