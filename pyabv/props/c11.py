"""C11 - evaluator lifecycle: recompile is atomic, repeatable and instance-local.

History checker against an executable sequential model: per evaluator slot the model is the
*last text it accepted*.  After every operation every live evaluator is probed with a panel of
calls and must behave exactly like a fresh evaluator built from its model text.
"""

from __future__ import annotations

import itertools

from pyabv.impl import Failpoint, at_depth, impl
from pyabv.props.common import ref_parse

RULE = (
    "cases = operation histories over 1..4 evaluator slots; ops = new(text), recompile(text), probe; alphabet = 15 valid "
    "texts (same name / other weights, other labels, other name, same tokens with other trivia, other field set, "
    "single group, salt, twins differing only in whitespace / case inside a string literal or after a // comment), 14 invalid texts (illegal character, missing brace, trailing junk, two definitions, empty, "
    "unterminated string, keyword typo, deleted token, unterminated comment, whitespace) and 2 grammatical texts "
    "that fail after parsing (known finding C07/py-reserved-identifier); exhaustive over all histories of length "
    "<= 3 (quick) / 4 (thorough) over a 4-text alphabet x {new, recompile} plus biased random histories. After every "
    "op the full probe panel runs on every live evaluator. distinct_nontrivial = distinct histories with >= 1 "
    "failing recompile or >= 2 evaluators. Plus 'ephemeral' histories whose source strings are built on the fly, have equal "
    "length and are dropped (and garbage-collected) right after use."
    " Added later: collision pairs under Adler-32, CRC-32, byte sums and digests truncated to 32 bits; late failures beyond keywords (unencodable text, nesting beyond the Python compiler's limits, thorough: a 2600-rung ladder); experiments named like evaluator attributes; copies taken at different moments of a history; transient faults (round 9): operations issued while the k-th function start inside the repository raises an injected exception (sys.monitoring PY_START, swept over the whole clean run of a recompile) or from a call stack 2..90 frames below the recursion limit - the failed operation must change nothing and the same text must be judged on its merits afterwards, on the same, a bystander and a new evaluator."
)
ASSUMPTIONS = [
    "model: an evaluator behaves like a fresh ExperimentEvaluator(last text it accepted); texts are valid / invalid "
    "according to the independent recogniser",
    "all alphabet texts have splitters or a single group, so fresh evaluators are deterministic",
]
QUICK_SHARDS = 4
MIN_NONTRIVIAL = {"quick": 600, "thorough": 20000}

VALID = {
    "A": 'def exp { splitters: uid return "a" weighted 1, "b" weighted 1 }',
    "A_weights": 'def exp { splitters: uid return "a" weighted 9, "b" weighted 1 }',
    "A_labels": 'def exp { splitters: uid return "x" weighted 1, "y" weighted 1 }',
    "A_trivia": 'def exp {\n  // same tokens, other trivia\n  splitters: uid\n  return "a" weighted 1, /* c */ "b" weighted 1\n}\n',
    "B_name": 'def other { splitters: uid return "a" weighted 1, "b" weighted 1 }',
    "C_fields": 'def exp { splitters: sid if plan == "pro" { return "p1" weighted 1, "p2" weighted 2 } else if n > 3 '
                '{ return "big" weighted 1 } }',
    "D_single": 'def exp { return "only" weighted 1 }',
    "E_salt": 'def exp { salt: "s1" splitters: uid return "a" weighted 1, "b" weighted 1 }',
    # twins that collide under a "normalising" checksum (whitespace collapsed, case folded) but mean different things
    "G_space1": 'def exp { splitters: uid return "grp A" weighted 1, "grp B" weighted 1 }',
    "G_space2": 'def exp { splitters: uid return "grp  A" weighted 1, "grp B" weighted 1 }',
    "G_case": 'def exp { splitters: uid return "GRP A" weighted 1, "grp B" weighted 1 }',
    "H_comment": 'def exp { splitters: uid // note\n return "a" weighted 1, "b" weighted 1 }',
    "I_salt1": 'def exp { salt: "s 1" splitters: uid return "a" weighted 1, "b" weighted 1 }',
    "I_salt2": 'def exp { salt: "s  1" splitters: uid return "a" weighted 1, "b" weighted 1 }',
    # pairs that collide under weak change detection: byte sums (transposition), Adler-32 ((+1,-2,+1) on three bytes),
    # "same length", "same first and last 40 characters"
    "K_aca": 'def exp { splitters: uid return "aca" weighted 1, "x" weighted 1 }',
    "K_bab": 'def exp { splitters: uid return "bab" weighted 1, "x" weighted 1 }',
    "K_ab": 'def exp { splitters: uid return "ab" weighted 1, "x" weighted 1 }',
    "K_ba": 'def exp { splitters: uid return "ba" weighted 1, "x" weighted 1 }',
    "M_mid1": 'def exp { /* a long comment that is the same in both revisions ........ */ splitters: uid return "m1" weighted 1, "x" weighted 3 '
              '/* and a long identical tail ............................................ */ }',
    "M_mid2": 'def exp { /* a long comment that is the same in both revisions ........ */ splitters: uid return "m2" weighted 3, "x" weighted 1 '
              '/* and a long identical tail ............................................ */ }',
    "R_name1": 'def recompile { splitters: uid return "r1" weighted 1, "r2" weighted 1 }',
    "R_name2": 'def recompile { salt: "other" splitters: uid return "r3" weighted 1, "r4" weighted 1 }',
    "R_name3": 'def run_experiment { splitters: uid return "r5" weighted 1, "r6" weighted 1 }',
    "U_cafe": 'def exp { splitters: uid return "caf\u00e9" weighted 1, "x" weighted 1 }',
    # a 40-arm else-if ladder: deep enough that a call issued near the recursion limit fails somewhere inside it
    "L_ladder40": 'def exp { splitters: uid if n == 0 { return "l0" weighted 1, "m0" weighted 2 } '
                  + " ".join(f'else if n == {i} {{ return "l{i}" weighted 1, "m{i}" weighted {i} }}' for i in range(1, 40))
                  + ' else { return "le" weighted 1, "me" weighted 3 } }',
    "F_shared": 'def exp { splitters: uid, plan if plan in ("pro", "max") { return 1 weighted 1, 2 weighted 1 } else '
                '{ return 0.5 weighted 1 } }',
}
INVALID = {
    "bad_char": 'def exp { splitters: uid return "a" weighted 1; "b" weighted 1 }',
    "bad_brace": 'def exp { splitters: uid return "a" weighted 1, "b" weighted 1 ',
    "bad_trailing": 'def exp { splitters: uid return "a" weighted 1, "b" weighted 1 } junk',
    "bad_two_defs": 'def exp { return "a" weighted 1 } def exp2 { return "b" weighted 1 }',
    "bad_empty": "",
    "bad_string": 'def exp { splitters: uid return "a weighted 1, "b" weighted 1 }',
    "bad_keyword": 'def exp { splitters: uid retrun "a" weighted 1, "b" weighted 1 }',
    "bad_deleted": 'def exp { splitters: uid return "a" 1, "b" weighted 1 }',
    "bad_comment": 'def exp { splitters: uid return "a" weighted 1 } /* open',
    "bad_ws": " \n\t ",
    "bad_weight": 'def exp { splitters: uid return "a" weighted .5, "b" weighted 1 }',
    "bad_comment_joined": 'def exp { splitters: uid // note return "a" weighted 1, "b" weighted 1 }',
    "bad_string_newline": 'def exp { splitters: uid return "grp\nA" weighted 1, "grp B" weighted 1 }',
    "bad_ecg": 'ecg exp { splitters: uid return "aca" weighted 1, "x" weighted 1 }',
    "bad_prefix": 'junk def exp { splitters: uid return "a" weighted 1, "b" weighted 1 }',
}
# grammatical, but construction fails after parsing (known finding of C07): the lifecycle model only
# demands that they fail the same way every time and leave the evaluator untouched
LATE_FAIL = {
    "late_keyword": 'def exp { splitters: class return "a" weighted 1, "b" weighted 1 }',
    "late_name": 'def lambda { splitters: uid return "a" weighted 1 }',
    # the UTF-8 bytes of U_cafe's e-acute spelled as lone surrogates (what errors="surrogateescape" produces): a different
    # text, and one that has no UTF-8 encoding - whatever an evaluator does with it, it does every time
    "late_surrogate": 'def exp { splitters: uid return "caf\udcc3\udca9" weighted 1, "x" weighted 1 }',
    # grammatical, but far beyond what Python's compiler nests (about 100 blocks / 200 parentheses)
    "late_deep_not": 'def exp { splitters: uid if ' + "not " * 260 + 'n > 3 { return "deep" weighted 1 } }',
    "late_deep_if": "def exp { splitters: uid " + "".join(f"if n > {i} {{ " for i in range(105)) + 'return "deep" weighted 1 ' + "} " * 105 + "}",
}


def _collision_pairs():
    """data/collisions.json (tools/make_collisions.py): pairs of valid texts colliding under crc32 / truncated digests"""
    import json
    import os

    from pyabv.run import HOME

    try:
        with open(os.path.join(HOME, "data", "collisions.json")) as f:
            d = json.load(f)
    except OSError:
        return []
    pairs = []
    for fn, p in sorted(d.items()):
        if p["a"] != p["b"] and p["label_a"] != p["label_b"]:
            VALID["X_%s_a" % fn], VALID["X_%s_b" % fn] = p["a"], p["b"]
            pairs.append(("X_%s_a" % fn, "X_%s_b" % fn))
    return pairs


COLLISION_PAIRS = _collision_pairs()
TEXTS = {**VALID, **INVALID, **LATE_FAIL}
EXTRA_LATE = set()

PANEL = [
    dict(uid=u, sid=s, plan=p, n=n)
    for u, s, p, n in [
        ("u1", "s1", "pro", 1), ("u2", "s2", "free", 5), (3, 4, "max", 2), ("user-4", "é", "pro", 9), (5.5, None, "x", 0),
        ("u6", "s6", "free", 3), ("u7", True, "pro", 4), ("", "", "", 4), ("u9", "s9", "max", 100), (10, "s10", "free", -1),
        ("g1912706679", "g3071403456", "pro", 7), ("u12", "s12", "none", 3.5),
    ]
]


class Lifecycle:
    def __init__(self, ctx, im):
        self.ctx = ctx
        self.im = im
        self.expected = {}
        self.accepts = {}

    def fresh_panel(self, name):
        """panel outcomes of a fresh evaluator of TEXTS[name]; None if it cannot be built"""
        if name not in self.expected:
            c = self.im.construct(TEXTS[name])
            if c[0] != "ok":
                self.expected[name] = None
            else:
                self.expected[name] = [self.im.call(c[1], env) for env in PANEL]
                again = [self.im.call(c[1], env) for env in PANEL]
                if again != self.expected[name]:
                    self.ctx.count("harness/fresh-evaluator-not-deterministic")
        return self.expected[name]

    def run_history(self, ops, layer):
        """ops: list of (op, slot, text_name).  Returns True if a violation was recorded."""
        ctx, im = self.ctx, self.im
        slots, model = {}, {}
        trace = []
        failing = 0
        for step, (op, slot, name) in enumerate(ops):
            text = TEXTS[name]
            if op in ("recompile", "copy") and slot not in slots:
                op = "new"
            raised = None
            if op == "copy":
                # a copy taken now is an evaluator of whatever the original holds now (slot + 10 is the copy's slot)
                import copy as _copy

                try:
                    dup = (_copy.copy if step % 2 else _copy.deepcopy)(slots[slot])
                    slots[slot + 10], model[slot + 10] = dup, model[slot]
                    ctx.count("copies")
                except Exception:  # noqa: BLE001
                    ctx.count("copy-not-supported")
                trace.append((op, slot, name, None))
                continue
            faulted = False
            if op.startswith("fault-"):
                # the operation is issued while a transient fault is in the air: the k-th function of the repository
                # that starts raises (fault-fp:k), or the call comes from a stack with little head room left
                # (fault-deep:frames).  Whatever happens then, the rule is the same as ever: an operation that raised
                # changed nothing, one that returned switched completely - and the text keeps its class afterwards.
                kind, _, arg = op[6:].partition(":")
                import contextlib
                import io

                def attempt(slot=slot, text=text):
                    if slot in slots:
                        slots[slot].recompile(text)
                        return None
                    return im.Evaluator(text)

                fp = None
                try:
                    with contextlib.redirect_stdout(io.StringIO()), contextlib.redirect_stderr(io.StringIO()):
                        if kind == "fp":
                            with Failpoint(int(arg)) as fp:
                                made = attempt()
                        else:
                            made = at_depth(int(arg), attempt)
                    if made is not None:
                        slots[slot] = made
                except Exception as e:  # noqa: BLE001
                    raised = type(e).__name__
                faulted = raised in ("InjectedFault", "RecursionError") or (fp is not None and fp.fired_in is not None)
                ctx.count("transient/" + kind + ("/raised" if raised else "/survived"))
                if fp is not None and fp.fired_in:
                    ctx.seen("failpoints", fp.fired_in)
            elif op == "new":
                c = im.construct(text)
                if c[0] == "ok":
                    slots[slot] = c[1]
                else:
                    raised = c[1]
            else:
                try:
                    import contextlib
                    import io

                    with contextlib.redirect_stdout(io.StringIO()), contextlib.redirect_stderr(io.StringIO()):
                        slots[slot].recompile(text)
                except Exception as e:  # noqa: BLE001
                    raised = type(e).__name__
            trace.append((op, slot, name, raised))
            ctx.evaluated()
            if raised is not None:
                failing += 1
            # (a)/(b): accept / reject according to the class of the text
            if faulted and raised is not None:
                pass  # the fault explains the exception; the state check below still applies
            elif name in VALID and raised is not None:
                return self.violate("valid-text-rejected", "C11/valid-text-rejected", ops, trace, step, layer, error=raised)
            if faulted and raised is not None:
                pass
            elif name in INVALID and raised is None:
                same_before = any(t[2] == name and t[3] is not None for t in trace[:-1])
                mech = "C11/invalid-text-silent-on-repeat" if same_before else "C11/invalid-text-accepted"
                return self.violate("invalid-text-accepted", mech, ops, trace, step, layer)
            if (name in LATE_FAIL or name in EXTRA_LATE) and not faulted:
                prev = self.accepts.setdefault(name, raised is None)
                if prev != (raised is None):
                    return self.violate("inconsistent-acceptance", "C11/invalid-text-silent-on-repeat", ops, trace, step, layer)
            if raised is None:
                model[slot] = name
            # (c)/(d): every live evaluator behaves like a fresh evaluator of its model text
            for s, ev in slots.items():
                want = self.fresh_panel(model[s])
                if want is None:
                    ctx.count("harness/model-text-not-constructible")
                    continue
                got = [im.call(ev, env) for env in PANEL]
                ctx.evaluated(len(PANEL))
                if got != want:
                    i = next(j for j, (a, b) in enumerate(zip(got, want)) if a != b)
                    mech = "C11/state-diverged" if s == slot else "C11/cross-evaluator"
                    if raised is not None and s == slot:
                        mech = "C11/failed-recompile-changed-state"
                    return self.violate("behaves-unlike-fresh-evaluator", mech, ops, trace, step, layer, slot=s,
                                        model_text=model[s], input=PANEL[i], got=got[i], fresh=want[i])
        if failing or len(slots) >= 2:
            ctx.nontrivial(tuple(ops))
        ctx.count(layer + "/histories")
        return False

    def violate(self, kind, mech, ops, trace, step, layer, **more):
        self.ctx.violation(kind, dict(ops=[list(o) for o in ops], trace=[list(t) for t in trace], failed_at_step=step,
                                      layer=layer, **more), mechanism=mech)
        return True


def random_history(rnd, n):
    names_v, names_i, names_l = list(VALID), list(INVALID), list(LATE_FAIL)
    nslots = rnd.randint(1, 4)
    ops = []
    last_text = {}
    for _ in range(n):
        slot = rnd.randrange(nslots)
        r = rnd.random()
        prev = last_text.get(slot)
        if prev and r < 0.18:
            name = prev  # same text again (same invalid / same valid: no-op)
        elif r < 0.5:
            name = rnd.choice(names_v)
        elif r < 0.92:
            name = rnd.choice(names_i)
        else:
            name = rnd.choice(names_l)
        if prev and rnd.random() < 0.15:
            # A, B, A pattern: go back to an earlier text of this slot
            earlier = [o[2] for o in ops if o[1] == slot]
            name = rnd.choice(earlier)
        op = "new" if rnd.random() < 0.15 else "recompile"
        ops.append((op, slot, name))
        last_text[slot] = name
    return ops


def run(ctx):
    im = impl()
    lc = Lifecycle(ctx, im)
    rnd = ctx.rnd
    # sanity of the alphabet against the reference (harness self-check)
    for name, text in TEXTS.items():
        st = ref_parse(text)
        want = "ok" if name in VALID or name in LATE_FAIL else "reject"
        if st[0] != want:
            ctx.count("harness/alphabet-misclassified")
            ctx.note("alphabet_problem", dict(name=name, status=st))
    # exhaustive layer
    alpha = ["A", "A_weights", "bad_char", "bad_keyword"]
    moves = [(op, t) for op in ("new", "recompile") for t in alpha]
    maxlen = 3 if ctx.quick() else 4
    idx = 0
    for L in range(1, maxlen + 1):
        for seq in itertools.product(moves, repeat=L):
            idx += 1
            if not ctx.mine(idx):
                continue
            # slot 0 is operated on; slot 1 is a bystander built first from another text
            ops = [("new", 1, "B_name")] + [(op, 0, t) for op, t in seq]
            lc.run_history(ops, "exhaustive")
    ctx.note("exhaustive_layer", dict(alphabet=alpha, max_length=maxlen, histories=idx))
    # second exhaustive alphabet: late failures and trivia twins (length <= 3)
    alpha2 = ["A", "A_trivia", "late_keyword", "bad_comment", "C_fields"]
    for L in range(1, 4):
        for seq in itertools.product(alpha2, repeat=L):
            idx += 1
            if not ctx.mine(idx):
                continue
            lc.run_history([("new", 1, "E_salt")] + [("recompile", 0, t) for t in seq], "exhaustive2")
    # third exhaustive alphabet: checksum-collision twins (length <= 3)
    alpha3 = ["G_space1", "G_space2", "G_case", "H_comment", "bad_comment_joined", "I_salt1", "I_salt2", "bad_string_newline"]
    alpha4 = ["K_aca", "K_bab", "bad_ecg", "K_ab", "K_ba", "M_mid1", "M_mid2"]
    for L in range(1, 4 if not ctx.quick() else 3):
        for seq in itertools.product(alpha4, repeat=L):
            idx += 1
            if not ctx.mine(idx):
                continue
            lc.run_history([("new", 1, "A")] + [("recompile", 0, t) for t in seq], "exhaustive4")
    for L in range(1, 4 if not ctx.quick() else 3):
        for seq in itertools.product(alpha3, repeat=L):
            idx += 1
            if not ctx.mine(idx):
                continue
            lc.run_history([("new", 1, "A")] + [("recompile", 0, t) for t in seq], "exhaustive3")
    # late failures other than a keyword: unencodable text, nesting beyond the Python compiler's limits
    # a text far beyond the explored sizes (a 2600-rung else-if ladder: the code generator's recursion gives up): whatever
    # happens to it, happens every time, on every evaluator, and leaves the evaluator alone
    if ctx.shard in (0, 7) and not ctx.quick():  # (thorough tier only: each parse of it takes seconds)
        TEXTS["late_ladder"] = ("def exp { splitters: uid if n == 0 { return \"l0\" weighted 1 } "
                                + " ".join(f'else if n == {i} {{ return "l{i}" weighted 1 }}' for i in range(1, 2600)) + " }")
        EXTRA_LATE.add("late_ladder")  # (not put into LATE_FAIL: the random histories must not draw a text that takes seconds per parse)
        lc.run_history([("new", 1, "A"), ("new", 0, "A_weights"), ("recompile", 0, "late_ladder"), ("recompile", 0, "late_ladder"),
                        ("recompile", 1, "late_ladder"), ("new", 2, "late_ladder"), ("recompile", 0, "late_ladder")], "deep-ladder")
    # copies taken at different moments of a recompile history
    for seq in itertools.permutations(["A", "A_weights", "B_name", "bad_char"], 3):
        idx += 1
        if ctx.mine(idx):
            ops = [("new", 0, seq[0]), ("recompile", 0, seq[1]), ("copy", 0, seq[1]), ("recompile", 0, seq[2]), ("copy", 0, seq[2]),
                   ("recompile", 10, seq[0])]
            lc.run_history(ops, "copies")
    for seq in itertools.permutations(["R_name1", "R_name2", "R_name3", "A", "bad_char"], 3):
        idx += 1
        if ctx.mine(idx):
            lc.run_history([("new", 1, "R_name1")] + [("recompile", 0, t) for t in seq], "evaluator-attribute-names")
    alpha5 = ["U_cafe", "late_surrogate", "late_deep_not", "late_deep_if", "C_fields"]
    for L in range(1, 4 if not ctx.quick() else 3):
        for seq in itertools.product([(op, t) for op in ("new", "recompile") for t in alpha5], repeat=L):
            idx += 1
            if not ctx.mine(idx):
                continue
            lc.run_history([("new", 1, "A")] + [(op, 0, t) for op, t in seq], "exhaustive5")
    # fifth layer: pairs that collide under crc32 / digests truncated to 32 bits (data/collisions.json)
    for a, b in COLLISION_PAIRS:
        for seq in ((a, b), (b, a), (a, b, a), (a, "bad_char", b), (b, b, a)):
            idx += 1
            if not ctx.mine(idx):
                continue
            lc.run_history([("new", 1, "A")] + [("recompile", 0, t) for t in seq], "collision-pairs")
    ctx.note("collision_pairs", [a[2:-2] for a, _ in COLLISION_PAIRS])
    # ephemeral texts: every source string is built at the moment it is used and dropped right after (with garbage
    # collections in between), all of the same length - an evaluator must not recognise "the same source" by anything
    # but its content
    import gc

    def build(w1, w2, ok=True):
        kw = "weighted" if ok else "weightex"
        return "".join(["def exp { splitters: uid return ", '"a" ', kw, " ", str(w1), ', "b" ', kw, " ", str(w2), " }"])

    neph = ctx.n(60, 3000)
    for hi in range(neph):
        c = im.construct(build(1, 1))
        if c[0] != "ok":
            break
        ev = c[1]
        cur = (1, 1)
        trace = []
        for step in range(12):
            w1, w2 = rnd.randint(1, 9), rnd.randint(1, 9)
            valid = rnd.random() < 0.75
            raised = None
            try:
                import contextlib
                import io

                with contextlib.redirect_stdout(io.StringIO()), contextlib.redirect_stderr(io.StringIO()):
                    ev.recompile(build(w1, w2, valid))  # the only reference to this string dies with the call
            except Exception as e:  # noqa: BLE001
                raised = type(e).__name__
            if rnd.random() < 0.6:
                gc.collect()
            trace.append((w1, w2, valid, raised))
            ctx.evaluated()
            if valid and raised is None:
                cur = (w1, w2)
            if valid and raised is not None:
                ctx.violation("valid-text-rejected", dict(trace=trace, layer="ephemeral"), mechanism="C11/valid-text-rejected")
                break
            if not valid and raised is None:
                ctx.violation("invalid-text-accepted", dict(trace=trace, layer="ephemeral"), mechanism="C11/invalid-text-accepted")
                break
            fresh = im.construct(build(*cur))
            got = [im.call(ev, env) for env in PANEL]
            want = [im.call(fresh[1], env) for env in PANEL]
            ctx.evaluated(len(PANEL))
            if got != want:
                i = next(j for j, (a, b) in enumerate(zip(got, want)) if a != b)
                ctx.violation("behaves-unlike-fresh-evaluator", dict(trace=trace, layer="ephemeral", model_weights=list(cur), input=PANEL[i],
                                                                     got=got[i], fresh=want[i]), mechanism="C11/state-diverged")
                break
        else:
            ctx.nontrivial("ephemeral", hi, tuple(trace))
            ctx.count("ephemeral/histories")
    # transient faults: an operation fails for a reason that has nothing to do with its text (a fault injected at the
    # k-th function start inside the repository, or a call issued with little stack left); the evaluator must be left
    # as it was, and the same text offered again - to this evaluator, to a bystander, to a new one - is judged on its
    # own merits.  Fault points are swept over the whole length of a clean run of the operation.
    pairs = [("A", "C_fields"), ("E_salt", "L_ladder40"), ("C_fields", "A_weights"), ("A", "bad_keyword"), ("B_name", "late_keyword"),
             ("L_ladder40", "U_cafe")]
    for cur, nxt in pairs:
        c = im.construct(TEXTS[cur])
        if c[0] != "ok":
            continue
        with Failpoint() as probe:
            try:
                c[1].recompile(TEXTS[nxt])
            except Exception:  # noqa: BLE001
                pass
        total = probe.events
        ctx.note("failpoint_span/" + cur + "->" + nxt, total)
        step = max(1, total // (ctx.n(40, 100000)))
        for k in range(1 + (rnd.randrange(step) if step > 1 else 0), total + 2, step):
            idx += 1
            if not ctx.mine(idx):
                continue
            f = f"fault-fp:{k}"
            tails = ([("recompile", 0, nxt), ("new", 2, nxt), ("recompile", 1, nxt)], [(f, 0, nxt), ("recompile", 0, nxt)],
                     [(f, 2, nxt), ("new", 2, nxt), ("recompile", 0, nxt)], [("recompile", 1, nxt), ("recompile", 0, cur), (f, 0, nxt), ("recompile", 0, nxt)])
            lc.run_history([("new", 0, cur), ("new", 1, "A_labels"), (f, 0, nxt)] + tails[k % len(tails)], "transient-failpoint")
        rooms = list(range(2, 90, 1 if not ctx.quick() else 4))
        for room in rooms:
            idx += 1
            if not ctx.mine(idx):
                continue
            f = f"fault-deep:{room + (rnd.randrange(4) if ctx.quick() else 0)}"
            lc.run_history([("new", 0, cur), ("new", 1, "A_labels"), (f, 0, nxt), ("recompile", 0, nxt), ("new", 2, nxt), (f, 1, nxt),
                            ("recompile", 1, nxt)], "transient-deep")
    # random histories
    n = ctx.n(1500, 100000)
    hlen = 25 if ctx.quick() else 50
    for i in range(n):
        ops = random_history(rnd, hlen)
        bad = lc.run_history(ops, "random")
        if i < 2:
            ctx.sample(dict(layer="random", ops=[list(o) for o in ops][:12], violated=bad))
    ctx.seen("texts", sorted(TEXTS))
    ctx.layer("failpoints", "observed" if ctx.counters.get("transient/fp/raised") else "unreachable",
              faults_raised=ctx.counters.get("transient/fp/raised", 0), near_limit_failures=ctx.counters.get("transient/deep/raised", 0))


def replay(ctx, kind, w):
    Lifecycle(ctx, impl()).run_history([tuple(o) for o in w["ops"]], "replay")
