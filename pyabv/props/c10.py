"""C10 - one hash position per unit: weight changes move only units at the boundary.

Relations between results of the implementation itself + exact-rational interval arithmetic:
(i) ramp monotonicity, (ii) non-empty intersection of the position intervals implied by all
results of one unit, (iii) same index in every branch with the same weight shape, (iv) with the
hash probe: one key and one u per unit, independent of weights / labels / branch.
"""

from __future__ import annotations

from pyabv.gen import golden
from pyabv.gen.weights import frac, ramp_pair
from pyabv.impl import ProbaProbe, impl
from pyabv.ref import bucket

RULE = (
    "cases = (unit, weight-vector pair or family) relations: two-group ramps p% -> q% (step 10 quick / 2 thorough), "
    "n-group vectors with mass moved towards earlier groups, 20 successive ramps of one experiment (interval "
    "intersection over all 20 results of a unit), decimal-weight ramps, the same shares written at other magnitudes, multi-branch programs with the condition field "
    "flipped, label changes, golden ids sitting on old and new boundaries. distinct_nontrivial = distinct (unit, pair) "
    "where the unit changed group or lies within 1% of a moved boundary."
    ' Added later: exponent-notation and 150 / 300-digit weights, ramps with four-digit subtotals under a 3-digit decimal context of the host, a redeploy layer (old weights here, new weights in child interpreters with other hash seeds, five splitters, one of them None), in-place ramps served by copies of the recompiled evaluator.'
)
ASSUMPTIONS = [
    "a monotonicity break is reported only if the unit's position (from the hash probe, else from the published scheme) "
    "is more than one grid point away from every boundary of both vectors",
    "interval reasoning grants one grid point per boundary unless all weights are integers summing to <= 65536",
]
QUICK_SHARDS = 4
MIN_NONTRIVIAL = {"quick": 3000, "thorough": 200000}
GRID = bucket.GRID


def text_for(vec, labels=None, salt="ramp", name="r"):
    labels = labels or [f"g{i}" for i in range(len(vec))]
    groups = ", ".join(f'"{lb}" weighted {w}' for lb, w in zip(labels, vec))
    return f'def {name} {{ salt: "{salt}" splitters: uid return {groups} }}'


def index_of(out):
    if out[0] == "ok" and isinstance(out[1], str) and out[1][:1] in "gh" and out[1][1:].isdigit():
        return int(out[1][1:])
    return None


def units_for(ctx, n, gold_ks=()):
    rnd = ctx.rnd
    base = rnd.choice([0, 10**6, 10**12])
    us = [base + i if i % 3 else f"user-{base + i}" for i in range(n)]
    return us


class Family:
    """one experiment under several weight vectors; per-unit interval intersection"""

    def __init__(self, ctx, im, vectors, salt="ramp", labels_variants=False, in_place=False):
        """in_place: the experiment is ramped the way a long-running service does it - one evaluator is recompiled from
        vector to vector, and what is asked at each stage is a copy taken at that moment (copy / deepcopy alternate)"""
        self.ctx, self.im = ctx, im
        self.vectors = vectors
        self.parts = [bucket.Partition([frac(w) for w in v]) for v in vectors]
        self.evs = []
        self.ok = True
        live = None
        for j, v in enumerate(vectors):
            labels = [f"{'h' if labels_variants and j % 2 else 'g'}{i}" for i in range(len(v))]
            text = text_for(v, labels, salt, name=f"r{j}" if labels_variants else "r")
            if in_place and live is not None:
                import copy as _copy

                try:
                    live.recompile(text)
                    self.evs.append((_copy.copy if j % 2 else _copy.deepcopy)(live))
                    ctx.count("families/stages-served-by-a-copy-of-the-recompiled-evaluator")
                    continue
                except Exception:  # noqa: BLE001
                    ctx.count("families/in-place-ramp-not-possible")
            c = im.construct(text)
            if c[0] != "ok":
                ctx.violation("construct-failed", dict(weights=v, error=c[1:]), mechanism="C10/construct-failed")
                self.ok = False
                return
            self.evs.append(c[1])
            if in_place and live is None:
                live = im.construct(text)[1]

    def check_unit(self, uid, probe, monotone_pairs):
        ctx, im = self.ctx, self.im
        lo, hi = 0, GRID - 1
        idxs, keys, us = [], set(), set()
        for ev, part in zip(self.evs, self.parts):
            out = im.call(ev, dict(uid=uid))
            ctx.evaluated()
            i = index_of(out)
            if i is None or i >= part.n:
                ctx.violation("no-group", dict(uid=uid, weights=self.vectors[len(idxs)], got=out), mechanism="C10/no-group")
                return
            idxs.append(i)
            if probe.calls:
                keys.add(probe.last_key)
                us.add(probe.last_u)
            # positions consistent with this result
            a, b = part.span(i)
            if part.exact_class:
                lo, hi = max(lo, a), min(hi, b - 1)
            else:
                lo, hi = max(lo, a - 1), min(hi, b)
        k_pub = bucket.position("ramp", ["uid"], dict(uid=uid))
        k = round(next(iter(us)) * GRID) if len(us) == 1 else k_pub
        if probe.calls and (len(keys) != 1 or len(us) != 1):
            ctx.violation("position-depends-on-configuration", dict(uid=uid, vectors=self.vectors, keys=sorted(keys), positions=sorted(us)),
                          mechanism="C10/position-depends-on-weights")
            return
        if lo > hi:
            ctx.violation("no-single-position-explains-results", dict(uid=uid, vectors=self.vectors, indices=idxs),
                          mechanism="C10/position-depends-on-weights")
            return
        moved = False
        for a, b in monotone_pairs:
            if idxs[a] != idxs[b]:
                moved = True
            if idxs[b] > idxs[a]:
                near = self.parts[a].near_boundary(k, 1) or self.parts[b].near_boundary(k, 1)
                if near:
                    ctx.count("monotonicity/excused-at-boundary")
                    continue
                ctx.violation("moved-to-later-group", dict(uid=uid, before=self.vectors[a], after=self.vectors[b],
                                                           index_before=idxs[a], index_after=idxs[b], k=k),
                              mechanism="C10/ramp-not-monotone")
                return
        near_moved = any(p.near_boundary(k, GRID // 100) for p in self.parts)
        if moved or near_moved:
            ctx.nontrivial(uid, tuple(map(tuple, self.vectors)))
        ctx.count("units/ok")
        if moved:
            ctx.count("units/changed-group")


def run(ctx):
    im = impl()
    rnd = ctx.rnd
    gold = golden.load()
    nunits = 1200 if ctx.quick() else 6000
    with ProbaProbe() as probe:
        # two-group ramps
        step = 10 if ctx.quick() else 2
        idx = 0
        for p in range(0, 100, step):
            for q in range(p + step, 101, step):
                idx += 1
                if not ctx.mine(idx):
                    continue
                if p == 0 and q == 0:
                    continue
                v1, v2 = [str(p), str(100 - p)], [str(q), str(100 - q)]
                fam = Family(ctx, im, [v1, v2], in_place=idx % 3 == 0)
                if not fam.ok:
                    continue
                us = units_for(ctx, nunits // 4)
                # golden ids on the old and the new boundary (salt 'ramp' is part of the key, so the golden
                # ids are reached through an unsalted twin below; here random units)
                for u in us:
                    fam.check_unit(u, probe, [(0, 1)])
                ctx.count("ramp-pairs")
        # golden ids exactly on boundaries of percent ramps (key = salt 'g' + int uid)
        pct = [(10, 20), (20, 50), (50, 90), (25, 75), (1, 99), (5, 10)]
        for i, (p, q) in enumerate(pct):
            if not ctx.mine(i):
                continue
            vs = [[str(p), str(100 - p)], [str(q), str(100 - q)]]
            fam = Family(ctx, im, vs, salt="g")
            if not fam.ok:
                continue
            for part in fam.parts:
                for kb in part.ceil[1:-1]:
                    for d in (-2, -1, 0, 1):
                        for gid in gold.get(kb + d, [])[:3]:
                            digits = gid[1:]
                            uid = int(digits) if not digits.startswith("0") else digits
                            _check_golden(ctx, fam, uid, probe)
        # n-group ramps, 20 successive ramps, decimal ramps
        nfam = ctx.n(160, 4000)
        for i in range(nfam):
            kind = rnd.choice(["pair", "chain", "decimal", "labels", "scaled"])
            if kind == "pair":
                v1, v2 = ramp_pair(rnd)
                fam, pairs = Family(ctx, im, [v1, v2]), [(0, 1)]
            elif kind == "chain":
                vs = [ramp_pair(rnd)[0]]
                n = len(vs[0])
                cuts = [sum(int(x) for x in vs[0][: j + 1]) for j in range(n - 1)]
                for _ in range(19):
                    cuts = sorted(min(100, c + rnd.choice([0, 0, 1, 3, 7])) for c in cuts)
                    pts = [0] + cuts + [100]
                    vs.append([str(pts[j + 1] - pts[j]) for j in range(n)])
                vs = [v for v in vs if any(x != "0" for x in v)]
                fam, pairs = Family(ctx, im, vs, in_place=i % 2 == 0), [(j, j + 1) for j in range(len(vs) - 1)] + [(0, len(vs) - 1)]
            elif kind == "scaled":
                # the same shares written at other magnitudes (x 10^-7, x 10^-4, x 10^5): nobody moves
                from decimal import Decimal

                base = [rnd.choice([rnd.randint(0, 9), rnd.randint(0, 9), rnd.choice([15, 25, 125, 33])]) for _ in range(rnd.randint(2, 5))]
                if not any(base):
                    base[0] = 1
                vs = [[str(x) for x in base]]
                for e in rnd.sample([-30, -21, -12, -11, -9, -7, -6, -4, -2, 3, 5, 8, 16, 19, 28], 4):
                    # (floats from 1e16 up and below 1e-4 have exponent-notation reprs)
                    vs.append([format(Decimal(x).scaleb(e), "f") + (".0" if e > 8 else "") for x in base])
                fam = Family(ctx, im, vs)
                pairs = [(a, b) for a in range(len(vs)) for b in range(len(vs)) if a != b]
            elif kind == "decimal":
                a = rnd.choice(["0.1", "0.25", "1.5", "3.4", "0.000000001", "33.3", "0.00000000025", "0.0000000000000000000125", "10.25", "996.4"])
                b = rnd.choice(["0.2", "0.7", "2.5", "5", "1", "66.7"])
                c3 = rnd.choice(["0.7", "0.6", "3", "1000000000"])
                from decimal import Decimal

                a2 = format(Decimal(a) + Decimal(rnd.choice(["0.1", "0.05", "1", "0.5"])), "f")
                vs = [[a, b, c3], [a2, b, c3]]
                # prefix shares: a/(a+b+c) <= a2/(a2+b+c) and (a+b)/(..) <= (a2+b)/(..): both hold when only a grows
                fam, pairs = Family(ctx, im, vs), [(0, 1)]
            else:
                v1, v2 = ramp_pair(rnd)
                fam, pairs = Family(ctx, im, [v1, v1, v2], labels_variants=True), [(0, 1), (1, 0), (0, 2)]
            if not fam.ok:
                continue
            from pyabv.impl import host_settings

            with host_settings("decimal" if i % 4 == 3 else None):
                for u in units_for(ctx, nunits):
                    fam.check_unit(u, probe, pairs)
            ctx.count("families/" + kind)
            if i < 2:
                ctx.sample(dict(kind=kind, vectors=fam.vectors[:4]))
        # ramps whose running totals need four and more digits, evaluated while the host's decimal context is cut to three
        # digits (money-handling applications do that): the ramp is as monotone as under any other context
        from pyabv.impl import host_settings

        for hi, (v1, v2) in enumerate([(["10", "986", "2"], ["11", "992", "2"]), (["123", "4567", "89"], ["124", "4570", "89"]),
                                       (["1000", "1", "1000"], ["1001", "2", "1000"]), (["0.1234", "0.4321", "1.0001"], ["0.1244", "0.4322", "1.0001"])]):
            if not ctx.mine(hi):
                continue
            fam = Family(ctx, im, [v1, v2])
            if not fam.ok:
                continue
            with host_settings("decimal"):
                for u in units_for(ctx, nunits * 3):
                    fam.check_unit(u, probe, [(0, 1)])
            ctx.count("families/host-decimal-context")
        # (iii) multi-branch: same weight shape in every branch, condition field flipped
        nb = ctx.n(20, 3000)
        for i in range(nb):
            v = ramp_pair(rnd)[0]
            def grp(prefix):
                return ", ".join(f'"{prefix}{j}" weighted {w}' for j, w in enumerate(v))
            text = (f'def mb {{ salt: "ramp" splitters: uid if plan == "a" {{ return {grp("g")} }} else if plan == "b" '
                    f'{{ if lvl > 3 {{ return {grp("h")} }} else {{ return {grp("g")} }} }} else {{ return {grp("h")} }} }}')
            c = im.construct(text)
            if c[0] != "ok":
                ctx.violation("construct-failed", dict(text=text, error=c[1:]), mechanism="C10/construct-failed")
                continue
            for u in units_for(ctx, nunits // 2):
                res, keys = [], set()
                for plan, lvl in (("a", 0), ("b", 9), ("b", 1), ("c", 0)):
                    out = im.call(c[1], dict(uid=u, plan=plan, lvl=lvl))
                    ctx.evaluated()
                    res.append(index_of(out))
                    if probe.calls:
                        keys.add((probe.last_key, probe.last_u))
                if None in res or len(set(res)) != 1 or len(keys) > 1:
                    ctx.violation("position-depends-on-branch", dict(text=text, uid=u, indices=res, keys=sorted(map(str, keys))),
                                  mechanism="C10/position-depends-on-branch")
                    break
                ctx.nontrivial("branch", u, tuple(v))
                ctx.count("branch-flips/ok")
        ctx.layer("hash-probe", "observed" if probe.calls else "unreachable", hits=probe.calls)
    if ctx.shard == 0 or not ctx.quick():
        redeploy_layer(ctx, im)
    ctx.sample(dict(example=text_for(["10", "90"]), ramped=text_for(["20", "80"])))


def redeploy_layer(ctx, im):
    """A ramp is a configuration change, and a configuration change usually arrives with a restart: the old weights are
    evaluated in this process, the new ones in fresh interpreters with other hash seeds.  A unit's position must not depend
    on the process (several splitter fields: their order in the key is fixed by the published scheme, not by the iteration
    order of a set), so the ramp stays monotone across the restart."""
    import json
    import shutil
    import tempfile

    from pyabv.props.c01 import run_child
    from pyabv.run import jsonable, unjson

    rnd = ctx.rnd
    fields = ["uid", "sid", "zone", "app", "Uid"]

    def text(vec):
        groups = ", ".join(f'"g{i}" weighted {w}' for i, w in enumerate(vec))
        return f'def r {{ salt: "ramp" splitters: {", ".join(fields)} return {groups} }}'

    pairs = [(["10", "90"], ["20", "80"]), (["1", "1", "2"], ["2", "1", "1"]), (["5", "0", "95"], ["5", "10", "85"]),
             (["10", "986", "2", "1000"], ["11", "992", "2", "1000"])]
    units = [dict(uid=1000 + i, sid=f"s{i % 7}", zone=["eu", "us", None][i % 3], app=i % 3, Uid=f"U{i}") for i in range(300 if ctx.quick() else 1500)]
    progs = [t for pr in pairs for t in (text(pr[0]), text(pr[1]))]
    tmp = tempfile.mkdtemp(prefix="pyabv-c10-")
    try:
        corpus_path = tmp + "/corpus.json"
        with open(corpus_path, "w", encoding="ascii") as f:
            json.dump({"programs": [dict(text=t, inputs=[jsonable(u) for u in units]) for t in progs]}, f, ensure_ascii=True)
        here = {}
        for t in progs[::2]:
            c = im.construct(t)
            if c[0] != "ok":
                ctx.violation("construct-failed", dict(text=t, error=c[1:]), mechanism="C10/construct-failed")
                return
            here[t] = [index_of(im.call(c[1], u)) for u in units]
        seeds = ["1", "2"] if ctx.quick() else [str(rnd.randrange(1, 2**31)) for _ in range(3)] + ["0"]
        for hs in seeds:
            res, err = run_child("redeploy-hashseed-" + hs, dict(PYTHONHASHSEED=hs), [], None, corpus_path, tmp)
            if res is None:
                ctx.set_inconclusive("C10 redeploy child failed: " + str(err)[:300])
                return
            rows = {}
            for t, tr in zip(progs, res["transcript"]):
                if "rows" not in tr:
                    ctx.violation("construct-failed", dict(text=t, error=tr.get("construct"), process="child hashseed " + hs), mechanism="C10/construct-failed")
                    return
                rows[t] = [index_of(tuple(unjson(json.loads(r)))) for r in tr["rows"]]
            for (v1, v2) in pairs:
                t1, t2 = text(v1), text(v2)
                for j, u in enumerate(units):
                    ctx.evaluated(2)
                    a, a2, b = here[t1][j], rows[t1][j], rows[t2][j]
                    if a is None or a != a2:
                        ctx.violation("position-depends-on-process", dict(text=t1, unit=u, this_process=a, restarted_process=a2, hashseed=hs),
                                      mechanism="C10/position-depends-on-weights")
                        return
                    if b is None or b > a:
                        part_a, part_b = bucket.Partition([frac(w) for w in v1]), bucket.Partition([frac(w) for w in v2])
                        k = bucket.position("ramp", sorted(fields), u)
                        if part_a.near_boundary(k, 1) or part_b.near_boundary(k, 1):
                            continue
                        ctx.violation("moved-to-later-group", dict(unit=u, before=v1, after=v2, index_before=a, index_after=b,
                                                                   after_restart_with_hashseed=hs), mechanism="C10/ramp-not-monotone")
                        return
                    ctx.nontrivial("redeploy", hs, j, tuple(v1))
            ctx.count("redeploys/ok")
    finally:
        shutil.rmtree(tmp, ignore_errors=True)


def _check_golden(ctx, fam, uid, probe):
    # with salt 'g' and integer uid the hashed key is the golden id itself
    fam2 = fam
    lo_before = ctx.nviolations
    # Family.check_unit computes the published position with salt 'ramp'; for golden families the probe
    # (or the published scheme with salt 'g') must be used instead
    im = fam.im
    idxs = []
    for ev, part in zip(fam.evs, fam.parts):
        out = im.call(ev, dict(uid=uid))
        ctx.evaluated()
        idxs.append(index_of(out))
    k = bucket.position("g", ["uid"], dict(uid=uid))
    for i, part in zip(idxs, fam2.parts):
        if i is None or i not in part.allowed(k):
            ctx.violation("golden-unit-outside-partition", dict(uid=uid, k=k, vectors=fam.vectors, indices=idxs),
                          mechanism="C10/ramp-not-monotone")
            return
    if idxs[1] > idxs[0]:
        ctx.violation("moved-to-later-group", dict(uid=uid, before=fam.vectors[0], after=fam.vectors[1], index_before=idxs[0],
                                                   index_after=idxs[1], k=k, golden=True), mechanism="C10/ramp-not-monotone")
        return
    ctx.nontrivial("golden", uid, tuple(map(tuple, fam.vectors)))
    ctx.count("golden-boundary-units/ok")
    assert lo_before == ctx.nviolations


def replay(ctx, kind, w):
    im = impl()
    with ProbaProbe() as probe:
        if "text" in w:
            c = im.construct(w["text"])
            if c[0] == "ok":
                res = [index_of(im.call(c[1], dict(uid=w["uid"], plan=p, lvl=l))) for p, l in (("a", 0), ("b", 9), ("b", 1), ("c", 0))]
                if len(set(res)) != 1:
                    ctx.violation(kind, w, mechanism="C10/position-depends-on-branch")
            return
        vs = w.get("vectors") or [w["before"], w["after"]]
        if w.get("golden") or kind == "golden-unit-outside-partition":
            fam = Family(ctx, im, vs, salt="g")
            if fam.ok:
                _check_golden(ctx, fam, w["uid"], probe)
            return
        fam = Family(ctx, im, vs)
        if fam.ok:
            fam.check_unit(w["uid"], probe, [(j, j + 1) for j in range(len(vs) - 1)])
