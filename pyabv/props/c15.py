"""C15 - evaluation is total over field values.

Oracle: outcome-class membership (a group is returned, nothing raises) + metamorphic relation
(values whose str() is identical share a bucket) + range check of the hash position function.
"""

from __future__ import annotations

import math
import unicodedata

from pyabv.impl import impl

RULE = (
    "cases = (salt, splitter value, unrelated extra value) triples through compiled experiments (1 and 2 splitters, "
    "with and without conditional): str (empty, 1 char, 10^5..10^6 chars, NUL, quotes, backslash, combining marks, "
    "astral, RTL, every Unicode general category sampled), int (0, negative, up to 10^4000), float (nan, inf, -0.0, "
    "subnormal, 1e308), bool, None; each value v also as str(v) (same bucket required); a salt sweep over ~130 hostile "
    "strings (braces, %, $, quotes, backslashes, escape look-alikes, control and non-ASCII characters) plus random ones; "
    "deterministic_proba range "
    "[0,1). distinct_nontrivial = distinct values that are not ASCII [A-Za-z0-9_]+ strings or ints below 2^31."
)
ASSUMPTIONS = [
    "lone surrogates have no UTF-8 encoding and ints beyond CPython's 4300-digit int->str limit cannot be printed: both "
    "are outside the domain",
]
QUICK_SHARDS = 2
MIN_NONTRIVIAL = {"quick": 1200, "thorough": 100000}

SALTS = [None, "", "s1", "é", "é", "日本語", "it's", 'q"q', "\\", "\x00", "🙂", "a b\tc"]
FIXED_VALUES = [
    "", " ", "a", "0", "1", "-1", "1.0", "True", "None", "nan", "josé", "josé", "日本語", "\U0001f600", "‮abc",
    "7", "7.0", "2.5", "1", "1.0", "\x00", "a\x00b", "it's", 'say "hi"', "back\\slash", "\\n", "\n", "\r\n", "\t", "a" * 100000, "é" * 50000,
    "﻿", " ", "ß", "İ", "ǅ", "ﬁ", "\U0010ffff", "\x7f", "\x80", "'; DROP TABLE users; --", "%s%s%s", "{0}",
    0, 1, -1, 7, 2**31 - 1, 2**31, 2**63, 2**64, -(2**63), 10**30, 10**400, -(10**400), 10**4000,
    0.0, -0.0, 1.0, 0.5, 1e22, 1e-7, 5e-324, 1.7976931348623157e308, float("inf"), float("-inf"), float("nan"), 0.1 + 0.2,
    True, False, None,
]


def texts(salt):
    from pyabv.gen.literals import render_lit
    from pyabv.ref.parse import Lit

    s = f"salt: {render_lit(Lit(salt, salt))} " if salt is not None else ""
    return {
        "one": f'def t1 {{ {s}splitters: uid return "a" weighted 1, "b" weighted 1, "c" weighted 2 }}',
        "two": f'def t2 {{ {s}splitters: uid, region return "a" weighted 1, "b" weighted 3 }}',
        "cond": f'def t3 {{ {s}splitters: uid if tier == 1 {{ return "x" weighted 1, "y" weighted 1 }} else '
                f'{{ return "z" weighted 1, "w" weighted 1 }} }}',
        # the splitter itself is compared with numbers / strings: whatever it is compared with, it is hashed as passed
        "shared-num": f'def t4 {{ {s}splitters: uid if uid == 2.5 or uid in (1, 7.0) {{ return "x" weighted 1, "y" weighted 1 }} else '
                      f'{{ return "z" weighted 1, "w" weighted 1 }} }}',
        "shared-str": f'def t5 {{ {s}splitters: uid if uid != "7" and uid not in ("1.0", "None") {{ return "x" weighted 1, "y" weighted 1 }} '
                      f'else {{ return "z" weighted 1, "w" weighted 1 }} }}',
        # one-member lists: (x) is a tuple with one member, so `in` tests membership whatever the type of uid
        "shared-single": f'def t6 {{ {s}splitters: uid if uid in ("7") or uid in (7) or uid not in ("") {{ return "x" weighted 1, "y" weighted 1 }} '
                         f'else {{ return "z" weighted 1, "w" weighted 1 }} }}',
        # an ordering comparison on the splitter behind a guard: `not (A and B)` evaluates B only when A holds
        "shared-guarded": f'def t7 {{ {s}splitters: uid if not (tier == 1 and uid > 1000) and (tier == 0 or uid <= 10 or uid > 10) '
                          f'{{ return "x" weighted 1, "y" weighted 1 }} else {{ return "z" weighted 1, "w" weighted 1 }} }}',
    }


LABELS = {"one": {"a", "b", "c"}, "two": {"a", "b"}, "cond": {"x", "y", "z", "w"}, "shared-num": {"x", "y", "z", "w"},
          "shared-str": {"x", "y", "z", "w"}, "shared-single": {"x", "y", "z", "w"}, "shared-guarded": {"x", "y", "z", "w"}}


def nontrivial_value(v):
    if isinstance(v, str):
        return not (v.isascii() and v.replace("_", "a").isalnum())
    if isinstance(v, bool) or v is None or isinstance(v, float) or not isinstance(v, int):
        return True
    return not (0 <= v < 2**31)


def random_value(rnd, big):
    r = rnd.random()
    if r < 0.45:
        n = rnd.choice([1, 2, 5, 20, 200 if not big else 5000])
        chars = []
        while len(chars) < n:
            cp = rnd.choice([rnd.randint(0, 0x7F), rnd.randint(0x80, 0x7FF), rnd.randint(0x800, 0xFFFF), rnd.randint(0x10000, 0x10FFFF)])
            if 0xD800 <= cp <= 0xDFFF:
                continue
            chars.append(chr(cp))
        return "".join(chars)
    if r < 0.65:
        return rnd.choice([1, -1]) * rnd.getrandbits(rnd.choice([8, 31, 64, 200, 4000]))
    if r < 0.85:
        return rnd.choice([rnd.random(), rnd.uniform(-1e300, 1e300), rnd.uniform(-1, 1) * 10 ** rnd.randint(-300, 300),
                           float(rnd.randint(-10**6, 10**6))])
    return rnd.choice([True, False, None])


def run(ctx):
    im = impl()
    rnd = ctx.rnd
    evs = {}
    for salt in SALTS:
        for shape, text in texts(salt).items():
            c = im.construct(text)
            if c[0] != "ok":
                ctx.evaluated()
                ctx.violation("construct-failed", dict(text=text, error=c[1:]), mechanism="C15/construct-failed")
                continue
            evs[(salt, shape)] = (text, c[1])
    from pyabv.gen import golden
    from pyabv.gen.inputs import exotic_splitter_values

    values = list(FIXED_VALUES) + exotic_splitter_values()
    gold = golden.load()
    for k in (0, 1, 2**32 - 1, 2**32 - 2, 2**31):
        values += gold.get(k, [])[:2]  # ids whose position is the first / last grid point: u must stay inside [0, 1)
    # one sample of every Unicode general category
    cats = {}
    for cp in range(0, 0x110000, 7 if ctx.quick() else 1):
        if 0xD800 <= cp <= 0xDFFF:
            continue
        cat = unicodedata.category(chr(cp))
        if cat not in cats or rnd.random() < 0.002:
            cats[cat] = chr(cp)
    values += list(cats.values())
    ctx.note("unicode_categories_sampled", sorted(cats))
    nrand = ctx.n(30000, 1500000)
    values_random = [random_value(rnd, not ctx.quick()) for _ in range(nrand)]
    allv = [(i, v) for i, v in enumerate(values) if ctx.mine(i)] + [(None, v) for v in values_random]
    keys = list(evs)
    for i, v in allv:
        try:
            sv = str(v)
            sv.encode("utf-8")
        except (ValueError, UnicodeEncodeError):
            ctx.count("out-of-domain")
            continue
        # deterministic_proba range
        try:
            u = im.binning.deterministic_proba(sv)
            ok = 0 <= u < 1  # any real number type
        except Exception as e:  # noqa: BLE001
            ok, u = False, type(e).__name__
        ctx.evaluated()
        if not ok:
            ctx.violation("position-out-of-range", dict(value=v, got=u), mechanism="C15/position-function-failed")
        ks = keys if i is not None else rnd.sample(keys, 4)
        for (salt, shape) in ks:
            text, ev = evs[(salt, shape)]
            extra = rnd.choice(FIXED_VALUES[:40])
            env = dict(uid=v, region=rnd.choice(["eu", 7, None]), tier=rnd.choice([0, 1]), unrelated=extra, another=v)
            if shape == "shared-guarded":
                # the guard is open (tier == 1) only for values that can be ordered against a number
                env["tier"] = 1 if type(v) in (int, float, bool) and rnd.random() < 0.7 else 0
            out = im.call(ev, env)
            ctx.evaluated()
            if nontrivial_value(v):
                ctx.nontrivial(type(v).__name__, repr(v)[:200], len(sv))
            if out[0] != "ok" or out[1] not in LABELS[shape]:
                mech = "C15/call-raised-" + out[1] if out[0] == "exc" else "C15/not-a-group"
                ctx.violation("not-total", dict(text=text, value=v if len(sv) < 300 else sv[:100] + "...", value_type=type(v).__name__,
                                                salt=salt, got=out), mechanism=mech)
                continue
            # v and str(v) print identically: same bucket (when the splitter is also a routing field the two may be routed
            # to different return statements - x/y vs z/w - but both statements split 1:1, so the *index* is shared)
            env2 = dict(env, uid=sv)
            if shape == "shared-guarded":
                env2["tier"] = 0
            out2 = im.call(ev, env2)
            ctx.evaluated()
            same_bucket = out2 == out
            if shape.startswith("shared") and out2[0] == "ok" and out[0] == "ok":
                same_bucket = "xz".find(out[1]) >= 0 and "xz".find(out2[1]) >= 0 or "yw".find(out[1]) >= 0 and "yw".find(out2[1]) >= 0
            if not same_bucket:
                ctx.violation("same-print-different-bucket", dict(text=text, value=v, as_str=sv[:200], got=out, got_str=out2),
                              mechanism="C15/same-print-different-bucket")
            else:
                ctx.count("total/" + type(v).__name__)
    # salt sweep: "a salt of any characters" - every hostile string of the literal pools as salt, a few units each; a group
    # must come back and it must be the group of the published scheme (weights 1:1:2 are exact)
    from fractions import Fraction

    from pyabv.gen import literals as L
    from pyabv.ref import bucket

    salts = [x for x in L.TRICKY_STRINGS if L.expressible(x)] + ["{}", "{0}", "{uid}", "{{v1}}", "exp{2024}", "{", "}", "a}b", "%s", "%d",
                                                                 "%(uid)s", "%", "%%", "$uid", "${uid}", "\\\\{", "{!r}", "{:>10}", "f'{uid}'"]
    nrs = ctx.n(40, 4000)
    salts += [L.random_string(rnd, 10) for _ in range(nrs)]
    W = [Fraction(1), Fraction(1), Fraction(2)]
    for si, salt in enumerate(salts):
        if si < len(salts) - nrs and not ctx.mine(si):
            continue
        text = texts(salt)["one"]
        c = im.construct(text)
        ctx.evaluated()
        if c[0] != "ok":
            ctx.violation("construct-failed", dict(text=text, salt=salt, error=c[1:]), mechanism="C15/construct-failed")
            continue
        for uid in ("u1", 7, "\u00e9", None, 2.5, ""):
            out = im.call(c[1], dict(uid=uid))
            ctx.evaluated()
            ctx.nontrivial("salt", salt, repr(uid))
            want = "abc"[bucket.exact_index(W, bucket.position(salt, ["uid"], dict(uid=uid)))]
            if out != ("ok", want):
                mech = "C15/call-raised-" + out[1] if out[0] == "exc" else "C15/salt-not-honoured"
                ctx.violation("salt-breaks-evaluation", dict(text=text, salt=salt, uid=uid, got=out, expected=want), mechanism=mech)
                break
        else:
            ctx.count("salt-sweep/ok")
    ctx.sample(dict(text=texts("é")["two"], env=dict(uid="josé", region=None)))
    ctx.seen("salts", [repr(s) for s in SALTS])


def replay(ctx, kind, w):
    im = impl()
    if "text" not in w:
        try:
            u = im.binning.deterministic_proba(str(w["value"]))
            if not (0.0 <= u < 1.0):
                raise ValueError(u)
        except Exception as e:  # noqa: BLE001
            ctx.violation("position-out-of-range", dict(value=w["value"], got=repr(e)), mechanism="C15/position-function-failed")
        return
    c = im.construct(w["text"])
    if c[0] != "ok":
        ctx.violation("construct-failed", dict(text=w["text"]), mechanism="C15/construct-failed")
        return
    v = w["value"]
    out = im.call(c[1], dict(uid=v, region="eu", tier=1))
    out2 = im.call(c[1], dict(uid=str(v), region="eu", tier=1))
    if out[0] != "ok":
        ctx.violation("not-total", dict(text=w["text"], value=v, got=out), mechanism="C15/call-raised-" + str(out[1]))
    elif out != out2:
        ctx.violation("same-print-different-bucket", dict(text=w["text"], value=v), mechanism="C15/same-print-different-bucket")
