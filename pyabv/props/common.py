"""Shared pieces of the property workloads: reference expectation for one (program, input),
label bookkeeping, outcome comparison helpers."""

from __future__ import annotations

from pyabv.ref import bucket
from pyabv.ref import parse as rparse
from pyabv.ref.eval import MissingField, Unroutable, route
from pyabv.ref.lex import Ambiguous, Reject


def same_value(a, b) -> bool:
    """exact value *and* type (floats by repr: -0.0 != 0.0, nan == nan)"""
    if type(a) is not type(b):
        return False
    if isinstance(a, float):
        return repr(a) == repr(b)
    if isinstance(a, tuple):
        return len(a) == len(b) and all(same_value(x, y) for x, y in zip(a, b))
    return a == b


def ref_parse(text):
    """-> ('ok', Program) | ('reject', reason) | ('ambiguous', reason)"""
    try:
        return ("ok", rparse.parse(text))
    except Ambiguous as e:
        return ("ambiguous", str(e))
    except Reject as e:
        return ("reject", str(e))
    except RecursionError:
        return ("ambiguous", "reference recursion limit")


def self_check(ctx, gp):
    """The generator's AST and the reference parser's reading of the rendered text must agree;
    otherwise the *harness* is wrong about what it generated and the case is dropped (counted)."""
    st = ref_parse(gp.text)
    if st[0] != "ok":
        ctx.count("harness/generated-text-not-accepted-by-reference")
        ctx.note("harness_selfcheck_example", dict(text=gp.text, status=st))
        return None
    prog = st[1]
    a, b = prog, gp.ast
    if (a.id, a.salt, a.splitters, a.cond) != (b.id, b.salt, b.splitters, b.cond):
        ctx.count("harness/render-parse-roundtrip-mismatch")
        ctx.note("harness_roundtrip_example", dict(text=gp.text))
        return None
    return prog


def expectation(prog, env):
    """What the property texts (C02 + C03 + C12) allow for this call.

    -> ('unroutable',) | ('groups', Ret, allowed_index_set or None, k or None) | ('skip', why)
    allowed set is None when the program has no splitters (random choice: membership only)."""
    try:
        ret = route(prog.cond, env)
    except Unroutable:
        return ("unroutable",)
    except MissingField as e:
        return ("skip", "missing field " + str(e))
    except TypeError as e:
        return ("skip", "not type-compatible: " + str(e)[:80])
    weights = [g.weight for g in ret.groups]
    if not prog.splitters:
        return ("groups", ret, None, None)
    try:
        k = bucket.position(prog.salt, prog.splitters, env)
    except UnicodeEncodeError:
        return ("skip", "value has no UTF-8 encoding")
    except KeyError as e:
        return ("skip", "missing splitter " + str(e))
    return ("groups", ret, bucket.allowed_indices(weights, k), k)


def label_index(ret, value):
    """index of the group of `ret` whose literal is exactly `value` (value and type), else None"""
    for i, g in enumerate(ret.groups):
        if same_value(g.label.value, value):
            return i
    return None


def judge(prog, env, outcome):
    """Compare an implementation outcome with the expectation.
    -> (verdict, detail)  verdict in 'ok' | 'skip' | 'wrong-branch' | 'wrong-group' | 'not-a-group'
       | 'unexpected-unroutable' | 'missed-unroutable' | 'exception' """
    exp = expectation(prog, env)
    if exp[0] == "skip":
        return "skip", exp[1]
    if outcome[0] == "exc":
        return "exception", dict(expected=exp[0], got=outcome)
    if exp[0] == "unroutable":
        if outcome[0] == "unroutable":
            return "ok", "unroutable"
        return "missed-unroutable", dict(got=outcome)
    _, ret, allowed, k = exp
    if outcome[0] == "unroutable":
        return "unexpected-unroutable", dict(expected_return=ret.ordinal)
    value = outcome[1]
    idx = label_index(ret, value)
    if idx is None:
        # a group of another return statement, or no group at all?
        for other in rparse.returns_of(prog.cond):
            if other is not ret and label_index(other, value) is not None:
                return "wrong-branch", dict(expected_return=ret.ordinal, got_return=other.ordinal, got=value)
        return "not-a-group", dict(expected_return=ret.ordinal, got=value, got_type=type(value).__name__)
    if allowed is not None and idx not in allowed:
        return "wrong-group", dict(expected_return=ret.ordinal, allowed=sorted(allowed), got_index=idx, k=k)
    return "ok", (ret.ordinal, idx)


def selection(prog, env):
    """reference selection for env: return ordinal, 'UNROUTABLE' or None (not judgeable)"""
    try:
        return route(prog.cond, env).ordinal
    except Unroutable:
        return "UNROUTABLE"
    except (MissingField, TypeError):
        return None


def choose_inputs(prog, gp, rnd, n, pool_factor=6):
    """Input records for one program, chosen with the *reference* router as a guide: a pool of
    boundary-value records is generated, and records that select a not yet covered return
    statement (or the fall-through) are taken first.  The implementation is not consulted."""
    from pyabv.gen.inputs import env_key, gen_env

    pool, seen = [], set()
    for _ in range(n * pool_factor):
        env = gen_env(gp, rnd)
        k = env_key(env)
        if k in seen:
            continue
        seen.add(k)
        pool.append((selection(prog, env), env))
    chosen, covered, rest = [], set(), []
    for sel, env in pool:
        if sel is not None and sel not in covered:
            covered.add(sel)
            chosen.append(env)
        else:
            rest.append(env)
    for env in rest:
        if len(chosen) >= n:
            break
        chosen.append(env)
    return chosen[: max(n, len(covered))], covered
