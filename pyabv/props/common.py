"""Shared pieces of the property workloads: reference expectation for one (program, input),
label bookkeeping, outcome comparison helpers."""

from __future__ import annotations

from pyabv.ref import bucket
from pyabv.ref import parse as rparse
from pyabv.ref.eval import MissingField, Unroutable, route
from pyabv.ref.lex import Ambiguous, Reject


def same_value(a, b) -> bool:
    """exact value *and* type (floats by repr: -0.0 != 0.0, nan == nan)"""
    if type(a) is not type(b):
        return False
    if isinstance(a, float):
        return repr(a) == repr(b)
    if isinstance(a, tuple):
        return len(a) == len(b) and all(same_value(x, y) for x, y in zip(a, b))
    return a == b


def ref_parse(text):
    """-> ('ok', Program) | ('reject', reason) | ('ambiguous', reason)"""
    try:
        return ("ok", rparse.parse(text))
    except Ambiguous as e:
        return ("ambiguous", str(e))
    except Reject as e:
        return ("reject", str(e))
    except RecursionError:
        return ("ambiguous", "reference recursion limit")


def self_check(ctx, gp):
    """The generator's AST and the reference parser's reading of the rendered text must agree;
    otherwise the *harness* is wrong about what it generated and the case is dropped (counted)."""
    st = ref_parse(gp.text)
    if st[0] != "ok":
        ctx.count("harness/generated-text-not-accepted-by-reference")
        ctx.note("harness_selfcheck_example", dict(text=gp.text, status=st))
        return None
    prog = st[1]
    a, b = prog, gp.ast
    if (a.id, a.salt, a.splitters, a.cond) != (b.id, b.salt, b.splitters, b.cond):
        ctx.count("harness/render-parse-roundtrip-mismatch")
        ctx.note("harness_roundtrip_example", dict(text=gp.text))
        return None
    return prog


def expectation(prog, env):
    """What the property texts (C02 + C03 + C12) allow for this call.

    -> ('unroutable',) | ('groups', Ret, allowed_index_set or None, k or None) | ('skip', why)
    allowed set is None when the program has no splitters (random choice: membership only)."""
    try:
        ret = route(prog.cond, env)
    except Unroutable:
        return ("unroutable",)
    except MissingField as e:
        return ("skip", "missing field " + str(e))
    except (TypeError, ArithmeticError, ValueError) as e:
        # e.g. Decimal against a NaN float signals InvalidOperation: Python itself cannot compare the two
        return ("skip", "not type-compatible: " + str(e)[:80])
    weights = [g.weight for g in ret.groups]
    if not prog.splitters:
        return ("groups", ret, None, None)
    try:
        k = bucket.position(prog.salt, prog.splitters, env)
    except UnicodeEncodeError:
        return ("skip", "value has no UTF-8 encoding")
    except KeyError as e:
        return ("skip", "missing splitter " + str(e))
    return ("groups", ret, bucket.allowed_indices(weights, k), k)


def label_index(ret, value):
    """index of the group of `ret` whose literal is exactly `value` (value and type), else None"""
    for i, g in enumerate(ret.groups):
        if same_value(g.label.value, value):
            return i
    return None


def label_index_at(ret, value, i):
    return 0 <= i < len(ret.groups) and same_value(ret.groups[i].label.value, value)


def judge(prog, env, outcome):
    """Compare an implementation outcome with the expectation.
    -> (verdict, detail)  verdict in 'ok' | 'skip' | 'wrong-branch' | 'wrong-group' | 'not-a-group'
       | 'unexpected-unroutable' | 'missed-unroutable' | 'exception' """
    exp = expectation(prog, env)
    if exp[0] == "skip":
        return "skip", exp[1]
    if outcome[0] == "exc":
        return "exception", dict(expected=exp[0], got=outcome)
    if exp[0] == "unroutable":
        if outcome[0] == "unroutable":
            return "ok", "unroutable"
        return "missed-unroutable", dict(got=outcome)
    _, ret, allowed, k = exp
    if outcome[0] == "unroutable":
        return "unexpected-unroutable", dict(expected_return=ret.ordinal)
    value = outcome[1]
    idx = label_index(ret, value)
    if idx is None:
        # a group of another return statement, or no group at all?
        for other in rparse.returns_of(prog.cond):
            if other is not ret and label_index(other, value) is not None:
                return "wrong-branch", dict(expected_return=ret.ordinal, got_return=other.ordinal, got=value)
        return "not-a-group", dict(expected_return=ret.ordinal, got=value, got_type=type(value).__name__)
    if allowed is not None and idx not in allowed:
        # a return statement may name a label more than once: the label is right if *some* allowed position carries it
        if any(label_index_at(ret, value, i) for i in allowed):
            return "ok", (ret.ordinal, min(i for i in allowed if label_index_at(ret, value, i)))
        return "wrong-group", dict(expected_return=ret.ordinal, allowed=sorted(allowed), got_index=idx, k=k)
    return "ok", (ret.ordinal, idx)


def selection(prog, env):
    """reference selection for env: return ordinal, 'UNROUTABLE' or None (not judgeable)"""
    try:
        return route(prog.cond, env).ordinal
    except Unroutable:
        return "UNROUTABLE"
    except (MissingField, TypeError, ArithmeticError, ValueError):
        return None


def choose_inputs(prog, gp, rnd, n, pool_factor=6):
    """Input records for one program, chosen with the *reference* router as a guide: a pool of
    boundary-value records is generated, and records that select a not yet covered return
    statement (or the fall-through) are taken first.  The implementation is not consulted."""
    from pyabv.gen.inputs import env_key, gen_env

    pool, seen = [], set()
    for _ in range(n * pool_factor):
        env = gen_env(gp, rnd)
        k = env_key(env)
        if k in seen:
            continue
        seen.add(k)
        pool.append((selection(prog, env), env))
    chosen, covered, rest = [], set(), []
    for sel, env in pool:
        if sel is not None and sel not in covered:
            covered.add(sel)
            chosen.append(env)
        else:
            rest.append(env)
    for env in rest:
        if len(chosen) >= n:
            break
        chosen.append(env)
    return chosen[: max(n, len(covered))], covered


# ---------------------------------------------------------------------------------------------
# kinds of identifiers inferred from a reference AST (for texts that did not come from ProgGen)


class Inferred:
    """duck-types GenProg for pyabv.gen.inputs.gen_env"""

    def __init__(self, prog, text):
        from pyabv.ref.eval import leaves, predicates_of
        from pyabv.ref.parse import Id, Lit, Tup

        self.text = text
        self.ast = prog
        kinds, lits = {}, {}

        def base_of(v):
            return "str" if isinstance(v, str) else "num"

        def note(name, kind, vals=()):
            if kind is not None and name not in kinds:
                kinds[name] = kind
            lits.setdefault(name, []).extend(vals)

        def tuple_base(t):
            for x in t.items:
                if isinstance(x, Lit):
                    return base_of(x.value), False
                if isinstance(x, Tup):
                    b, _ = tuple_base(x)
                    return b, True
            return None, False

        def tup_value(t):
            return tuple(x.value if isinstance(x, Lit) else (tup_value(x) if isinstance(x, Tup) else None) for x in t.items)

        cmps = [c for p in predicates_of(prog.cond) for c in leaves(p)]
        for _ in range(3):
            for c in cmps:
                a, b, op = c.left, c.right, c.op
                for x, y in ((a, b), (b, a)):
                    if not isinstance(x, Id):
                        continue
                    member_side = (x is a)
                    if op in ("in", "not in"):
                        if member_side:
                            if isinstance(y, Tup):
                                base, nested = tuple_base(y)
                                if nested:
                                    note(x.name, "t" + (base or "num"), [tup_value(i) for i in y.items if isinstance(i, Tup)])
                                else:
                                    note(x.name, base or "str", [i.value for i in y.items if isinstance(i, Lit)])
                                    for i in y.items:
                                        if isinstance(i, Id):
                                            note(i.name, base or kinds.get(x.name))
                            elif isinstance(y, Id):
                                if y.name in kinds and kinds[y.name].startswith("t"):
                                    note(x.name, kinds[y.name][1:])
                                elif x.name in kinds and not kinds[x.name].startswith("t"):
                                    note(y.name, "t" + kinds[x.name])
                            elif isinstance(y, Lit):
                                note(x.name, base_of(y.value), [y.value])
                        else:  # x is the container
                            if isinstance(y, Lit):
                                note(x.name, "t" + base_of(y.value), [y.value])
                            elif isinstance(y, Id) and y.name in kinds and not kinds[y.name].startswith("t"):
                                note(x.name, "t" + kinds[y.name])
                            elif isinstance(y, Tup):
                                base, _ = tuple_base(y)
                                note(x.name, "t" + (base or "num"), [tup_value(y)])
                    else:
                        if isinstance(y, Lit):
                            note(x.name, base_of(y.value), [y.value])
                        elif isinstance(y, Tup):
                            base, _ = tuple_base(y)
                            note(x.name, "t" + (base or "num"), [tup_value(y)])
                            for i in y.items:
                                if isinstance(i, Id):
                                    note(i.name, base)
                        elif isinstance(y, Id) and y.name in kinds:
                            note(x.name, kinds[y.name])
        for n in prog.identifiers:
            kinds.setdefault(n, "str")
            lits.setdefault(n, [])
        self.splitter_only = set()
        self.shared = set()
        for s in prog.splitters or []:
            if s in kinds:
                self.shared.add(s)
            else:
                kinds[s] = "any"
                self.splitter_only.add(s)
        self.kinds = kinds
        self.lits = lits
        self.features = set()


def all_labels(prog):
    return [g.label.value for r in rparse.returns_of(prog.cond) for g in r.groups]


def is_member(prog, value):
    return any(same_value(v, value) for v in all_labels(prog))


# texts that must be rejected; fed *before* another text to expose state that leaks out of a failed compilation
POISON_TEXTS = [
    'def p { return "a" weighted 1 } /* open',
    'def p { /* open return "a" weighted 1 }',
    'def p { return "a weighted 1 }',
    'def p { return "a" weighted 1 ; }',
    "def p {",
    'def p { if a == { return "a" weighted 1 } }',
    "",
]


def poison(im, text):
    """compile a rejected text and discard the outcome (it is judged elsewhere)"""
    im.construct(text)
    im.parse(text)
