"""C07 - every grammatical experiment compiles and evaluates.

Oracle: outcome-class membership.  For a text the reference recogniser accepts, construction
must not raise, and every call on type-compatible inputs must end with one of the program's
group literals (exact value and type) or with the unroutable-condition error.
"""

from __future__ import annotations

from pyabv.gen import corpus
from pyabv.gen.inputs import gen_env
from pyabv.gen.programs import POOL_HOSTILE, POOL_KWPREFIX, POOL_PLAIN, POOL_SHAPE, Profile, ProgGen, Renderer
from pyabv.impl import impl
from pyabv.props.common import POISON_TEXTS, poison, Inferred, choose_inputs, is_member, ref_parse, selection, self_check
from pyabv.ref.parse import And, Cmp, Group, Id, If, Lit, Not, Or, Program, Ret, Tup

RULE = (
    "cases = (grammatical program, type-compatible input) pairs: documented examples and the repository's test "
    "programs verbatim; every identifier of the plain / keyword-prefixed / shape pools in every identifier position "
    "(experiment name, splitter, left / right operand, tuple member, container, shared splitter+condition, all at "
    "once); size-limit shapes (nesting 12, else-if chains 60, 64 groups, and/or/not chains of 60, 60 redundant "
    "parentheses, 200-member and depth-3 tuples); random programs. distinct_nontrivial = distinct programs that use "
    "a keyword-prefixed or shape identifier, a shared splitter/condition field, an identifier or tuple inside a "
    "tuple, or a size beyond every test program."
)
ASSUMPTIONS = [
    "grammatical = accepted by the independent recogniser (pyabv/ref)",
    "type-compatible inputs by construction; calls on which the reference itself raises TypeError are dropped (counted)",
    "Python hard keywords and names used by the generated code as DSL identifiers are exercised separately and "
    "classified as the known finding C07/py-reserved-identifier",
]
QUICK_SHARDS = 4
MIN_NONTRIVIAL = {"quick": 1200, "thorough": 20000}

HOSTILE = set(POOL_HOSTILE)
HELPER_NAMES = {"partial", "deterministic_choice", "ExperimentConditionalFailedError", "choose_experiment_variant", "kwargs", "map", "str"}
PY_KEYWORDS = HOSTILE - HELPER_NAMES  # Python hard keywords that are not DSL keywords, and __debug__


def program_identifiers(prog):
    return {prog.id} | set(prog.splitters or []) | set(prog.identifiers)


def mechanism(prog, default, failure="failed"):
    """Classifier for the known-finding file.  The key names *which kind* of identifier sits in *which role* and
    *how* the failure shows, so that a reserved name failing in a new role or in a new way is still a violation:
        C07/py-keyword-identifier/<failure>          a Python hard keyword / __debug__ used as any identifier
        C07/helper-name-as-field/<failure>           partial, str, map, kwargs, ... used as splitter or condition field
        C07/helper-name-as-experiment-name/<failure> ... used only as the experiment's name
    <failure> is construct-<Exception>, call-<Exception> or not-a-group."""
    fields = set(prog.splitters or []) | set(prog.identifiers)
    if (fields | {prog.id}) & PY_KEYWORDS:
        return f"C07/py-keyword-identifier/{failure}"
    if fields & HELPER_NAMES:
        return f"C07/helper-name-as-field/{failure}"
    if prog.id in HELPER_NAMES:
        return f"C07/helper-name-as-experiment-name/{failure}"
    return default


def exercise(ctx, im, text, gp, ninputs, layer, nontrivial, prog=None):
    """construct + calls; returns number of calls judged"""
    rnd = ctx.rnd
    if prog is None:
        st = ref_parse(text)
        if st[0] != "ok":
            ctx.count("harness/reference-did-not-accept:" + st[0])
            ctx.note("harness_rejected_example", dict(text=text[:400], why=st[1], layer=layer))
            return 0
        prog = st[1]
    if gp is None:
        gp = Inferred(prog, text)
    c = im.construct(text)
    ctx.evaluated()
    ctx.count(layer + "/programs")
    if nontrivial:
        ctx.nontrivial(text)
    if c[0] != "ok":
        ctx.violation("construct-failed", dict(text=text, error=c[1:], layer=layer),
                      mechanism=mechanism(prog, "C07/construct-" + c[1], "construct-" + c[1]))
        return 0
    ev = c[1]
    envs, _ = choose_inputs(prog, gp, rnd, ninputs, pool_factor=3)
    judged = 0
    for env in envs:
        sel = selection(prog, env)
        if sel is None:
            ctx.count("skipped/not-type-compatible")
            continue
        out = im.call(ev, env)
        ctx.evaluated()
        judged += 1
        if out[0] == "unroutable":
            ctx.count(layer + "/unroutable")
            continue
        if out[0] == "ok" and is_member(prog, out[1]):
            ctx.count(layer + "/group")
            continue
        kind = "call-raised" if out[0] == "exc" else "not-a-group"
        failure = "call-" + out[1] if out[0] == "exc" else "not-a-group"
        ctx.violation(kind, dict(text=text, env=env, got=out, layer=layer),
                      mechanism=mechanism(prog, f"C07/{kind}-{out[1] if out[0] == 'exc' else ''}", failure))
        break
    return judged


# ---------------------------------------------------------------------------------------------


def identifier_templates(x, y="other_f"):
    """programs putting identifier x in every identifier position"""
    T = '{ return "T" weighted 1, "T2" weighted 1 }'
    F = '{ return "F" weighted 1 }'
    return {
        "name": f'def {x} {{ splitters: u return "a" weighted 1, "b" weighted 1 }}',
        "splitter": f'def e {{ splitters: {x} return "a" weighted 1, "b" weighted 1 }}',
        "splitter-2nd": f'def e {{ salt: "s" splitters: u, {x} return "a" weighted 1, "b" weighted 3 }}',
        "left-num": f"def e {{ splitters: u if {x} > 1 {T} else {F} }}",
        "left-str": f'def e {{ if {x} == "v" {T} else {F} }}',
        "right": f"def e {{ splitters: u if 1 < {x} {T} else {F} }}",
        "right-field-field": f"def e {{ if {y} == {x} {T} else if {x} != {y} {F} }}",
        "tuple-member": f"def e {{ splitters: u if {y} in ({x}, 2) {T} else {F} }}",
        "nested-tuple-member": f'def e {{ if {y} in (("a", {x}), ("b", "c")) {T} else {F} }}',
        "container": f"def e {{ if 1 in {x} {T} else {F} }}",
        "after-not": f"def e {{ if not {x} == 1 and not({x} == 2) {T} else {F} }}",
        "shared": f'def e {{ splitters: {x} if {x} == "a" {T} else {F} }}',
        "shared-2": f'def e {{ splitters: {y}, {x} if {x} == "a" or {y} == "b" {T} else {F} }}',
        "everywhere": f'def {x} {{ splitters: {x} if {x} in ({x}, "q") {T} else if {x} != {x} {F} }}',
        "tight": f'def e{{splitters:{x} if {x}=="a"{{return "T" weighted 1}}else{{return "F" weighted 1}}}}',
    }


def _ret(label, o, n=1):
    return Ret(tuple(Group(Lit(f"{label}_{j}", f"{label}_{j}"), "1") for j in range(n)), o)


def size_shapes(rnd):
    """(name, text) programs at the explored size limits"""
    R = Renderer(None)
    out = []

    def leaf(i, kind="num"):
        return Cmp(Id(f"f{i % 7}"), ["==", ">", "<=", "!="][i % 4], Lit(i % 5, str(i % 5)))

    # else-if chains
    for n in (10, 30, 60):
        arms = tuple((leaf(i), _ret(f"c{i}", i)) for i in range(n))
        out.append((f"chain-{n}", R.program(Program("chain", "s", ["u"], If(arms, _ret("e", n)), n + 1, set()))))
        out.append((f"chain-{n}-noelse", R.program(Program("chain", None, ["u"], If(arms, None), n, set()))))
    # chains inside chains (every chain <= 60 arms, nesting <= 12): the number of arms on one path is the product
    def chain_text(prefix, n, tail):
        arms = " ".join(f'{"if" if i == 0 else "else if"} f{i % 7} == {100 + i} {{ return "{prefix}{i}" weighted 1 }}' for i in range(n))
        return f"{arms} else {{ {tail} }}"

    out.append(("chain-60-in-else-of-chain-60", "def cc { splitters: u " + chain_text("a", 60, chain_text("b", 60, 'return "e" weighted 1, "e2" weighted 1')) + " }"))
    out.append(("chain-35-x3-nested", "def cc { splitters: u " + chain_text("a", 35, chain_text("b", 35, chain_text("c", 35, 'return "e" weighted 1'))) + " }"))
    t = 'return "e" weighted 1, "e2" weighted 3'
    for lvl in range(12):
        t = chain_text(f"l{lvl}_", 10, t)
    out.append(("chain-10-x12-nested", "def cc { splitters: u " + t + " }"))
    # nesting
    for d in (6, 12):
        o = [0]

        def nest(k):
            if k == 0:
                o[0] += 1
                return _ret(f"n{o[0]}", o[0] - 1, 2)
            o[0] += 1
            e = _ret(f"x{o[0]}", o[0] - 1)
            return If(((leaf(k), nest(k - 1)),), e if k % 2 else None)

        c = nest(d)
        out.append((f"nest-{d}", R.program(Program("nest", None, ["u", "f1"], c, o[0], set()))))
    # groups
    for n in (16, 64):
        r = Ret(tuple(Group(Lit(f"g{j}", f"g{j}"), str(1 + j % 3)) for j in range(n)), 0)
        out.append((f"groups-{n}", R.program(Program("groups", "s", ["u"], r, 1, set()))))
        r = Ret(tuple(Group(Lit(j, str(j)), "0.5") for j in range(n)), 0)
        out.append((f"groups-int-{n}", R.program(Program("groups", None, ["u"], If(((leaf(1), r),), None), 1, set()))))
    # boolean chains
    for n in (20, 60):
        for name, ctor in (("and", And), ("or", Or)):
            p = leaf(0)
            for i in range(1, n):
                p = ctor(p, leaf(i))
            out.append((f"{name}-chain-left-{n}", _ifelse(R, p)))
            p = leaf(n - 1)
            for i in range(n - 2, -1, -1):
                p = ctor(leaf(i), p)
            out.append((f"{name}-chain-right-{n}", _ifelse(R, p)))
        p = leaf(0)
        for i in range(1, n):
            p = (And if i % 2 else Or)(p, Not(leaf(i)) if i % 3 == 0 else leaf(i))
        out.append((f"mixed-chain-{n}", _ifelse(R, p)))
        p = leaf(1)
        for i in range(n):
            p = Not(p)
        out.append((f"not-chain-{n}", _ifelse(R, p)))
        inner = R.pred(leaf(2))
        out.append((f"parens-{n}", f'def par {{ splitters: u if {"(" * n}{inner}{")" * n} {{ return "T_0" weighted 1 }} '
                                   f'else {{ return "F_0" weighted 1 }} }}'))
    # tuples
    big = Tup(tuple(Lit(i, str(i)) for i in range(200)))
    out.append(("tuple-200", _ifelse(R, Cmp(Id("f1"), "in", big))))
    nested = Tup((Tup((Tup((Lit(1, "1"), Lit(2, "2"))), Tup((Lit(3, "3"),)))), Tup((Tup((Lit(4, "4"),)),))))
    out.append(("tuple-depth-3", _ifelse(R, Cmp(Id("T"), "not in", nested))))
    out.append(("tuple-idents", _ifelse(R, Cmp(Id("f1"), "in", Tup((Id("f2"), Id("f3"), Lit(1, "1"), Tup((Id("f4"),))))))))
    out.append(("one-tuple-both-sides", 'def ot { if (f1) == (f2) { return "T_0" weighted 1 } else { return "F_0" weighted 1 } }'))
    # the same group list returned from several branches at different depths (deeper later, deeper first, siblings)
    same = '"x" weighted 1, "y" weighted 2'
    out.append(("repeated-return-deeper-later", f'def rr {{ splitters: u if f1 == 1 {{ return {same} }} else {{ if f2 == 1 {{ if f3 == 1 {{ return {same} }} }} else {{ return {same} }} }} }}'))
    out.append(("repeated-return-deeper-first", f'def rr {{ splitters: u if f1 == 1 {{ if f2 == 1 {{ if f3 == 1 {{ return {same} }} else {{ return {same} }} }} }} else if f2 == 2 {{ return {same} }} else {{ return {same} }} }}'))
    out.append(("repeated-return-siblings", f'def rr {{ if f1 == 1 {{ return {same} }} else if f1 == 2 {{ return {same} }} else {{ return {same} }} }}'))
    out.append(("repeated-return-single", 'def rr { if f1 == 1 { return "only" weighted 1 } else { if f2 == 1 { return "only" weighted 1 } } }'))
    # many splitters, duplicates in the splitter list
    out.append(("splitters-10", 'def sp { splitters: a, b, c, d, e, f, g, h, i, j return "x" weighted 1, "y" weighted 1 }'))
    tiny = "0." + "0" * 323 + "5"  # 5e-324, the smallest positive double
    out.append(("subnormal-weight-single", f'def sw {{ splitters: u return "x" weighted {tiny} }}'))
    out.append(("subnormal-weights", f'def sw {{ splitters: u if f1 == 1 {{ return "x" weighted {tiny}, "y" weighted {tiny} }} else {{ return "z" weighted {tiny}, "w" weighted 0, "v" weighted 0.{"0" * 320}25 }} }}'))
    out.append(("splitters-3000", "def sp { splitters: " + ", ".join(f"s{i:04d}" for i in range(3000)) + ' return "x" weighted 1, "y" weighted 1 }'))
    out.append(("splitter-repeated", 'def sp { splitters: a, a return "x" weighted 1, "y" weighted 1 }'))
    out.append(("splitter-reverse-order", 'def sp { splitters: z, y, x, a if x == 1 { return "x" weighted 1, "y" weighted 1 } }'))
    return out


def _ifelse(R, p):
    return R.program(Program("shape", None, ["u"], If(((p, _ret("T", 0, 2)),), _ret("F", 1)), 2, set()))


def run(ctx):
    im = impl()
    rnd = ctx.rnd
    idx = 0
    nin = 12 if ctx.quick() else 20
    # documented examples and test programs
    for name, text in list(corpus.DOCUMENTED.items()) + list(corpus.test_programs().items()) + [
        (f"seed{i}", s) for i, s in enumerate(corpus.SEEDS)
    ]:
        idx += 1
        if ctx.mine(idx):
            exercise(ctx, im, text, None, 40, "documented", nontrivial="README" in name or "docs" in name)
            ctx.seen("documented_programs", name)
    # sentences in which the blank inside `not in` / `else if` is written as two blanks, a tab, a line break
    from pyabv.gen.trivia import inner_whitespace_variants, token_slices

    for text in list(corpus.DOCUMENTED.values()) + corpus.SEEDS:
        try:
            sl = token_slices(text)
        except Exception:  # noqa: BLE001
            continue
        for wi, ws, text_v in inner_whitespace_variants(sl):
            idx += 1
            if ctx.mine(idx):
                exercise(ctx, im, text_v, None, 3, "inner-whitespace", nontrivial=True)
    # after a rejected text: nothing of the failure may leak into the next compilation
    for pz in POISON_TEXTS:
        for text in list(corpus.DOCUMENTED.values())[:2] + corpus.SEEDS[:6]:
            idx += 1
            if ctx.mine(idx):
                poison(im, pz)
                exercise(ctx, im, text, None, 4, "after-rejected-text", nontrivial=True)
    # identifier positions
    for pool_name, pool in (("plain", POOL_PLAIN), ("kwprefix", POOL_KWPREFIX), ("shape", POOL_SHAPE), ("hostile", POOL_HOSTILE)):
        for x in pool:
            for pos, text in identifier_templates(x).items():
                idx += 1
                if not ctx.mine(idx):
                    continue
                exercise(ctx, im, text, None, 6, "identifiers-" + pool_name, nontrivial=pool_name in ("kwprefix", "shape"))
                ctx.seen("identifier_positions", pos)
    ctx.sample(dict(layer="identifiers", text=text))
    # token-level mutants of the seed programs that are *still* sentences of the grammar (duplicated `not`, swapped operands,
    # re-cased keywords that became identifiers, inserted parentheses ...): unusual but grammatical, so they must compile
    from pyabv.gen.mutate import single_mutations
    from pyabv.gen.trivia import token_slices

    for sidx, seed_text in enumerate(corpus.SEEDS):
        for kind, detail, text in single_mutations(token_slices(seed_text)):
            if kind in ("illegal-char", "illegal-char-glued", "prefix-junk", "suffix-junk", "truncate", "break-weight", "number-format"):
                continue
            idx += 1
            if not ctx.mine(idx) or (ctx.quick() and idx % 3):
                continue
            st = ref_parse(text)
            if st[0] == "ok":
                exercise(ctx, im, text, None, 4, "grammatical-mutants", nontrivial=True, prog=st[1])
                ctx.seen("grammatical_mutation_kinds", kind)
    # size shapes
    for name, text in size_shapes(rnd):
        idx += 1
        if ctx.mine(idx):
            exercise(ctx, im, text, None, 30, "size-shapes", nontrivial=True)
            ctx.seen("size_shapes", name)
    # random programs
    n = ctx.n(1200, 100000)
    profiles = [
        Profile(),
        Profile(max_depth=4, max_arms=4, pred_depth=4, hard_literals=0.6, p_tuple_ident=0.3, p_nested_tuple=0.2),
        Profile(max_depth=2, max_arms=6, pred_depth=3, p_shared=0.8, splitters=(1, 4)),
        Profile(max_depth=3, max_arms=3, pred_depth=2, splitters=(0, 0)),
        Profile(max_depth=6, max_arms=2, pred_depth=2, p_leaf_cond=0.3, max_groups=16),
        Profile(max_depth=4, max_arms=3, pred_depth=1, p_leaf_cond=0.3, p_repeat_return=0.5),
    ]
    for i in range(n):
        g = ProgGen(rnd, rnd.choice(profiles))
        gp = g.program()
        prog = self_check(ctx, gp)
        if prog is None:
            continue
        used = program_identifiers(prog)
        nt = bool(used & set(POOL_KWPREFIX + POOL_SHAPE)) or bool(gp.shared) or bool(
            gp.features & {"ident-in-tuple", "nested-tuple"})
        exercise(ctx, im, gp.text, gp, nin, "random", nontrivial=nt, prog=prog)
        for f in gp.features:
            ctx.seen("features", f)
        if i < 2:
            ctx.sample(dict(layer="random", text=gp.text))


def replay(ctx, kind, w):
    exercise(ctx, impl(), w["text"], None, 30, "replay", False)
    if not ctx.violations and "env" in w:
        im = impl()
        st = ref_parse(w["text"])
        c = im.construct(w["text"])
        if st[0] == "ok" and c[0] == "ok" and selection(st[1], w["env"]) is not None:
            out = im.call(c[1], w["env"])
            if not (out[0] == "unroutable" or (out[0] == "ok" and is_member(st[1], out[1]))):
                ctx.violation("call-raised" if out[0] == "exc" else "not-a-group", dict(text=w["text"], env=w["env"], got=out),
                              mechanism=mechanism(st[1], "C07/replayed", "call-" + out[1] if out[0] == "exc" else "not-a-group"))
