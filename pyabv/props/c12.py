"""C12 - the published bucketing scheme is pinned.

Oracle: pyabv.ref.bucket, an independent implementation written from the statement of the
property alone (first 32 bits of MD5 of utf8(salt + str(values in sorted field-name order))).
Plus fixed known answers for deterministic_proba, and golden ids whose digest starts with
chosen bits (distinguishes "first 8 hex digits" from "last 8" and from other hashes at once).
"""

from __future__ import annotations

from pyabv.gen import golden
from pyabv.gen.inputs import SPLITTER_VALUES, exotic_splitter_values
from pyabv.gen.programs import Profile, ProgGen
from pyabv.impl import impl
from pyabv.props.common import choose_inputs, judge, self_check
from pyabv.ref import bucket

RULE = (
    "cases = (program, input) pairs compared with an independent implementation of the published scheme: salts absent / "
    "empty / ASCII / non-ASCII / with quotes and backslashes x 1..4 splitter names in every declaration order (keyword-"
    "prefixed, mixed-case, underscore names) x values str / int / float / bool / None; 44 known answers of the hash "
    "position function (RFC 1321 vectors and others, hard-coded); golden ids. distinct_nontrivial = distinct (program, "
    "input) whose routed return has >= 2 positive-weight groups."
    ' Added later: exotic splitter values (str / int subclasses with their own __str__, arbitrary objects, Decimal, Fraction, bytes, containers), annotated headers, a salt sweep over the whole literal pool, repeated splitters and repeated labels, golden ids on the boundaries of the 1:1:2 statement always evaluated.'
)
ASSUMPTIONS = [
    "'alphabetical order of field name' is Python sorted() on the names (code-point order)",
    "a splitter name is never repeated in the splitters clause (the statement does not say whether it enters the key once or twice)",
    "float weights: one grid point of tolerance per boundary (exact for integer weights summing to <= 65536)",
]
QUICK_SHARDS = 2
MIN_NONTRIVIAL = {"quick": 3000, "thorough": 100000}

# (input string, first 32 bits of its MD5) - RFC 1321 appendix A.5 test suite and further fixed strings,
# written down when the design was made; not computed at run time.
KAT = [
    ("", 0xD41D8CD9), ("a", 0x0CC175B9), ("abc", 0x90015098), ("message digest", 0xF96B697D),
    ("abcdefghijklmnopqrstuvwxyz", 0xC3FCD3D7),
    ("ABCDEFGHIJKLMNOPQRSTUVWXYZabcdefghijklmnopqrstuvwxyz0123456789", 0xD174AB98),
    ("12345678901234567890123456789012345678901234567890123456789012345678901234567890", 0x57EDF4A2),
    ("The quick brown fox jumps over the lazy dog", 0x9E107D9D),
    ("The quick brown fox jumps over the lazy dog.", 0xE4D909C2),
]


def kat_table():
    """KATs: the hard-coded RFC vectors plus golden ids (whose positions are fixed by the data file
    and re-verified at load), plus non-ASCII strings checked against hashlib"""
    import hashlib

    out = [(s, k, "rfc1321") for s, k in KAT]
    gold = golden.load()
    for k in (0, 1, 2**31, 2**32 - 1):
        for gid in gold.get(k, [])[:2]:
            out.append((gid, k, "golden"))
    ks = sorted(gold)
    for k in ks[:: max(1, len(ks) // 24)]:
        out.append((gold[k][0], k, "golden"))
    for s in ["é", "é", "日本語", "\U0001f600", "user\x00id", "ß" * 10, "a" * 1000, " ", "\n"]:
        out.append((s, int.from_bytes(hashlib.md5(s.encode("utf-8")).digest()[:4], "big"), "hashlib"))
    return out


SALTS = [None, "", "s", "exp_v1", "é", "日本", "a'b", 'x"y', "\\", "a\\nb", "salt with spaces", "0", "%s", "{0}", "🙂"]
NAME_SETS = [
    ["uid"], ["user_id", "country"], ["b", "a"], ["B", "a"], ["a", "B", "_c"], ["order_id", "index", "not_active"],
    ["z", "y", "x", "w"], ["Uid", "uid"], ["a1", "a10", "a2"], ["_", "__", "a"], ["in_", "If", "android"],
    ["uid", "uid"], ["uid", "country", "uid"], ["b", "a", "b", "a"],
]


def header_program(rnd, names, salt, order, comments=0):
    from pyabv.gen.literals import render_lit
    from pyabv.ref.parse import Lit

    fields = [names[i] for i in order]
    s = f"salt: {render_lit(Lit(salt, salt), rnd)} " if salt is not None else ""
    n = rnd.choice([2, 2, 3, 5, 10])
    ws = [rnd.choice(["1", "1", "2", "3", "10"]) for _ in range(n)]
    rep = n >= 3 and rnd.random() < 0.3  # control / treatment / control: each *position* owns its segment of the weight line
    groups = ", ".join(f'"g{i % 2 if rep else i}" weighted {w}' for i, w in enumerate(ws))
    if comments == 1:
        # a header annotated the way people annotate configuration: several block comments on the line of each clause
        s2 = f'/* was "v1" */ {s}/* bumped */ ' if s else "/* no salt */ /* yet */ "
        return f"def p {{ {s2}/* ids: */ splitters: /* a */ {', /* b */ '.join(fields)} /* end of header */ return /* r */ {groups} /* done */ }}"
    if comments == 2:
        s2 = f"{s}// the salt *is* part of the key */\n" if s else "// no salt /* here\n"
        return f"def p {{ /** doc **/\n{s2}splitters: {', '.join(fields)} // fields * / \n/* 2 * 3 */ return {groups} }}"
    return f"def p {{ {s}splitters: {', '.join(fields)} return {groups} }}"


def run(ctx):
    import itertools

    from pyabv.props.common import ref_parse

    im = impl()
    rnd = ctx.rnd
    # known answers
    if ctx.shard == 0:
        for s, k, src in kat_table():
            ctx.evaluated()
            try:
                u = im.binning.deterministic_proba(s)
            except Exception as e:  # noqa: BLE001
                ctx.violation("kat-raised", dict(input=s, error=type(e).__name__), mechanism="C12/position-function-changed")
                continue
            if u != k / 2**32:
                ctx.violation("kat-mismatch", dict(input=s, expected_k=k, got_u=u, source=src),
                              mechanism="C12/position-function-changed")
            else:
                ctx.count("kat/" + src)
            ctx.nontrivial("kat", s)
    # header sweep: salts x name sets x declaration orders x values
    idx = 0
    for names in NAME_SETS:
        orders = sorted(set(itertools.permutations(range(len(names)))))
        if len(orders) > 6:
            orders = rnd.sample(orders, 6)
        for order in orders:
            for salt in SALTS:
                idx += 1
                if not ctx.mine(idx):
                    continue
                if ctx.quick() and idx % 3:
                    continue
                text = header_program(rnd, names, salt, order, comments=idx % 3)
                st = ref_parse(text)
                c = im.construct(text)
                if st[0] != "ok" or c[0] != "ok":
                    ctx.evaluated()
                    if st[0] == "ok":
                        ctx.violation("construct-failed", dict(text=text, error=c[1:]), mechanism="C12/construct-failed")
                    else:
                        ctx.count("harness/reference-did-not-accept")
                    continue
                for j in range(12):
                    env = {n: rnd.choice(SPLITTER_VALUES) for n in names}
                    if j == 0:
                        env = {n: "" for n in names}  # with no / empty salt the key is the empty string: still position md5("")
                    elif j == 1:
                        env = {n: rnd.choice([0, False, None, 0.0, "0"]) for n in names}
                    elif j in (2, 3):
                        # any object is hashed through its str(): subclasses of str / int with their own __str__, Decimal,
                        # Fraction, bytes, containers
                        env = {n: rnd.choice(exotic_splitter_values()) for n in names}
                    check(ctx, im, st[1], text, c[1], env, "headers")
                    if j == 0:
                        check(ctx, im, st[1], text, c[1], env, "headers")  # and again: must not be a random draw
                ctx.seen("salts", repr(salt))
    ctx.sample(dict(layer="headers", text=text, env=env))
    # salt sweep: every hostile string of the literal pool as the salt (number-like - "007", "1.50", "1e3", " 12" -, escapes,
    # quotes, control characters ...): the hashed prefix is the text between the quotes, nothing else
    from pyabv.gen import literals as L

    for si, sv in enumerate([x for x in L.TRICKY_STRINGS if L.expressible(x)]):
        idx += 1
        if not ctx.mine(idx):
            continue
        names = NAME_SETS[si % len(NAME_SETS)]
        text = header_program(rnd, names, sv, list(range(len(names))), comments=si % 3)
        st = ref_parse(text)
        if st[0] != "ok":
            ctx.count("harness/reference-did-not-accept")
            continue
        c = im.construct(text)
        if c[0] != "ok":
            ctx.evaluated()
            ctx.violation("construct-failed", dict(text=text, error=c[1:]), mechanism="C12/construct-failed")
            continue
        for j in range(8):
            check(ctx, im, st[1], text, c[1], {n: rnd.choice(SPLITTER_VALUES) for n in names}, "salt-sweep")
    # golden ids through whole programs (three key shapes)
    gold = golden.load()
    ks = sorted(gold)
    evs = {}
    for how in ("plain", "salt", "two"):
        salt, env = golden.split_id("g12345", how)
        s = f'salt: "{salt}" ' if salt else ""
        text = f'def gq {{ {s}splitters: {", ".join(sorted(env))} return "g0" weighted 1, "g1" weighted 1, "g2" weighted 2 }}'
        evs[how] = (text, ref_parse(text)[1], im.construct(text))
    on_boundary = {0, 2**30, 2**31, 3 * 2**30, 2**32 - 1, 2**30 - 1, 2**31 - 1}  # the boundaries of 1:1:2 themselves: always
    for i, k in enumerate(ks):
        if k in on_boundary:
            if ctx.shard != 0:
                continue
        elif not ctx.mine(i) or (ctx.quick() and i % 4):
            continue
        for gid in gold[k][:2]:
            for how, (text, prog, c) in evs.items():
                if c[0] != "ok":
                    continue
                salt, env = golden.split_id(gid, how)
                check(ctx, im, prog, text, c[1], env, "golden")
    # random programs with conditionals
    n = ctx.n(2500, 300000)
    pg = ProgGen(rnd, Profile(max_depth=2, max_arms=3, pred_depth=2, splitters=(1, 4), p_salt=0.8, weights="int"))
    for i in range(n):
        gp = pg.program()
        prog = self_check(ctx, gp)
        if prog is None:
            continue
        c = im.construct(gp.text)
        if c[0] != "ok":
            ctx.evaluated()
            ctx.violation("construct-failed", dict(text=gp.text, error=c[1:]), mechanism="C12/construct-failed")
            continue
        envs, _ = choose_inputs(prog, gp, rnd, 30 if ctx.quick() else 40, pool_factor=2)
        for env in envs:
            check(ctx, im, prog, gp.text, c[1], env, "random")


def check(ctx, im, prog, text, ev, env, layer):
    out = im.call(ev, env)
    verdict, detail = judge(prog, env, out)
    ctx.evaluated()
    if verdict == "skip":
        ctx.count("skipped")
        return
    if verdict == "ok":
        ctx.count(layer + "/agreed")
        if detail != "unroutable":
            from pyabv.ref.parse import returns_of

            ret = [r for r in returns_of(prog.cond) if r.ordinal == detail[0]][0]
            if sum(1 for g in ret.groups if g.weight > 0) >= 2:
                ctx.nontrivial(text, tuple(sorted((k, repr(v)) for k, v in env.items())))
        return
    mech = {"wrong-group": "C12/assignment-differs-from-published-scheme", "exception": "C12/call-raised"}.get(verdict, "C12/" + verdict)
    ctx.violation(verdict, dict(text=text, env=env, detail=detail, layer=layer), mechanism=mech)


def replay(ctx, kind, w):
    from pyabv.props.common import ref_parse

    im = impl()
    if "input" in w:
        for s, k, src in kat_table():
            if s == w["input"] and im.binning.deterministic_proba(s) != k / 2**32:
                ctx.violation("kat-mismatch", dict(input=s, expected_k=k), mechanism="C12/position-function-changed")
        return
    st = ref_parse(w["text"])
    c = im.construct(w["text"])
    if st[0] == "ok" and c[0] == "ok":
        check(ctx, im, st[1], w["text"], c[1], w["env"], "replay")
