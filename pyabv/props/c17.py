"""C17 - concurrent compilation and evaluation are thread-safe.

Workers in 2..16 threads construct, recompile and evaluate; every result is compared with the
sequential reference computed single-threaded from the same tree in the same process before the
threads start.  Interleavings are forced with a 1 microsecond switch interval and, in half of
the runs, with sys.monitoring LINE events on the repository's code objects that yield
(time.sleep(0)) with a seeded probability - i.e. only at statement boundaries, where the GIL
could really be released.  Evidence of interleaving (cross-thread switches between consecutive
line events, threads simultaneously inside parse_source) is recorded; none observed => inconclusive.
"""

from __future__ import annotations

import os
import random
import sys
import threading
import time

from pyabv.impl import impl

RULE = (
    "cases = (run, thread, operation) results produced in worker threads: W1 concurrent constructions from a pool of "
    "sources with block comments (lexer class swap), multi-line comments and long else-if chains, compared by probe "
    "panel, parse_source AST equality and generated-text equality; W5 every thread builds its own revisions of one "
    "experiment name (unique labels per construction); W2 concurrent calls on shared evaluators; W3 one "
    "evaluator toggled between texts A and B by a recompiler while callers evaluate (result must be A(x) or B(x)); W4 "
    "failing recompiles racing with calls (callers keep seeing A); W6 all of it at once; W7 staggered constructions of a 1500-rung else-if ladder (outcome class compared); W9 (escalation, only when a concurrent run leaves sys.getrecursionlimit() changed): staggered constructions of 1600-rung ladders with the limit reset every round; W10 several threads recompile one evaluator to the same new text at once and then call it (generations separated by barriers); W8 cold start: fresh interpreters whose first-ever constructions happen in 2..16 threads released together (W3 alternates between a same-name and an other-name revision). distinct_nontrivial = distinct (run, thread, op) "
    "results produced by worker threads that were released together by a barrier and ran concurrently (evidence of real "
    "overlap is reported separately: threads simultaneously inside parse_source, cross-thread switches between line events)."
)
ASSUMPTIONS = [
    "CPython 3.12 with the GIL: pre-emption happens between bytecodes; a 1 us switch interval plus yield injection at line "
    "events approximates 'all interleavings'; pre-emption inside one line is left to the switch interval",
    "TSan / helgrind are not applicable (no instrumentable native code of the repository; not a TSan build of CPython)",
]
QUICK_SHARDS = 4
MIN_NONTRIVIAL = {"quick": 1500, "thorough": 40000}
WATCHDOG_S = {"quick": 900, "thorough": 7200}


def chain(n):
    arms = " ".join(
        f'else if f{i % 5} == {i} {{ return "c{i}a" weighted 1, "c{i}b" weighted 2 }}' for i in range(1, n))
    return f'def chain {{ splitters: uid if f0 == 0 {{ return "c0" weighted 1 }} {arms} else {{ return "e" weighted 1, "e2" weighted 1 }} }}'


SOURCES = [
    'def s0 { splitters: uid return "a" weighted 1, "b" weighted 1 }',
    '/* header */ def s1 { /* a */ salt: "x" /* b */ splitters: uid /* c */ return "a" weighted 1, /* d */ "b" weighted 3 /* e */ }',
    'def s2 {\n /* multi\n line\n comment */\n splitters: uid, sid // line comment\n if plan == "pro" /* x */ { return "p" weighted 1, "q" weighted 1 }\n'
    ' else if n >= 3 { return "big" weighted 1 } else { return "small" weighted 2, "tiny" weighted 1 } }',
    chain(40),
    'def s4 { splitters: uid if plan in ("a", "b", ("c")) and not (n < 2 or n > 50) { return 1 weighted 1, 2 weighted 1 } '
    'else { return 3.5 weighted 1, -4 weighted 1 } }',
    "/* a *//* b */ def s5 /**/ { /***/ splitters: /* s */ uid return /* r */ 'x' weighted 0.5, /* t */ 'y' weighted 0.5 } // end",
    chain(12),
    # float literals that need all 17 significant digits (operands, tuple members, group values)
    'def s7 { splitters: uid if n >= 0.000012345678901234567 and n not in (12345678901234567168.0, 0.30000000000000004) '
    '{ return 0.000012345678901234567 weighted 1, 98765432109876543210.0 weighted 1 } else { return 0.1000000000000000055 weighted 1, 2.675 weighted 1 } }',
]
PANEL = [dict(uid=u, sid=s, plan=p, n=n, f0=n % 3, f1=1, f2=2, f3=3, f4=n)
         for u, s, p, n in [("u1", "s", "pro", 1), (2, "t", "a", 3), ("u3", "s", "c", 40), ("é", 4, "free", 2), (5.5, None, "b", 7),
                            ("u6", "s6", "pro", 11), ("g1912706679", "x", "zz", 0), ("u8", "s8", "a", 60)]]
SUFFIX = "abc"


def w5_text(tag):
    return (f'def checkout {{ /* rev {tag} */ salt: "w5" splitters: uid return "{tag}a" weighted 1, "{tag}b" weighted 2, '
            f'"{tag}c" weighted 1 }}')


W5_REF = w5_text("ref")
TEXT_A = 'def ab { splitters: uid return "a1" weighted 1, "a2" weighted 1 }'
TEXT_B = 'def ab { /* b */ splitters: uid if plan == "a" { return "b1" weighted 1 } else { return "b2" weighted 1, "b3" weighted 2 } }'
TEXT_B2 = 'def other_name { /* b2 */ splitters: uid if plan == "a" { return "b1" weighted 1 } else { return "b2" weighted 1, "b3" weighted 2 } }'
TEXT_BAD = ['def ab { splitters: uid return "a1" weighted 1; }', 'def ab { splitters: uid return "a1" weighted }', "def ab { /* open",
            'junk def ab { return "z" weighted 1 }']


SEQ_CACHE = {}


class Interleaver:
    """sys.monitoring LINE events on repository code: counts events and cross-thread switches, and yields with
    probability p (seeded per thread).  Installed once per process; off when `active` is False."""

    TOOL = 4
    installed = False

    def __init__(self):
        self.active = False
        self.p = 0.0
        self.last_tid = None
        self.per_thread = {}
        self.switches = 0
        self.events = 0
        self.sig = []
        self.root = os.path.join(os.environ.get("PYABV_REPO", "/repo"), "src", "pyab_experiment")

    def install(self):
        if Interleaver.installed:
            return
        mon = sys.monitoring
        mon.use_tool_id(self.TOOL, "pyabv-interleave")
        local = threading.local()
        root = self.root

        def on_line(code, lineno):
            if not code.co_filename.startswith(root):
                return mon.DISABLE
            if not self.active:
                return None
            tid = threading.get_ident()
            self.events += 1  # approximate under races; evidence only
            if tid != self.last_tid:
                self.switches += 1
                self.last_tid = tid
                if len(self.sig) < 4096:
                    self.sig.append(tid)
            rnd = getattr(local, "rnd", None)
            if rnd is None:
                rnd = local.rnd = random.Random(hash((self.seed, tid)) & 0xFFFFFFFF)
            if rnd.random() < self.p:
                time.sleep(0)
            return None

        mon.register_callback(self.TOOL, mon.events.LINE, on_line)
        mon.set_events(self.TOOL, mon.events.LINE)
        Interleaver.installed = True

    def start(self, p, seed):
        self.install()
        self.p, self.seed = p, seed
        self.last_tid = None
        self.active = True

    def stop(self):
        self.active = False


class ParseOverlap:
    """rebinding of experiment_evaluator.parse_source with a wrapper that tracks how many threads are inside it"""

    def __init__(self, im):
        self.im = im
        self.lock = threading.Lock()
        self.inside = 0
        self.max_inside = 0
        self.overlapped_calls = 0
        self.calls = 0

    def __enter__(self):
        self.orig = getattr(self.im.ee, "parse_source", None)
        self.installed = callable(self.orig)
        if not self.installed:
            return self  # the evaluator no longer resolves parse_source through its module: overlap evidence unavailable
        real = self.orig

        def wrapper(text):
            with self.lock:
                self.inside += 1
                self.calls += 1
                if self.inside > 1:
                    self.overlapped_calls += 1
                self.max_inside = max(self.max_inside, self.inside)
            try:
                return real(text)
            finally:
                with self.lock:
                    self.inside -= 1

        self.im.ee.parse_source = wrapper
        return self

    def __exit__(self, *exc):
        if self.installed:
            self.im.ee.parse_source = self.orig
        return False


def sequential_reference(im):
    ref = {}
    for text in SOURCES + [TEXT_A, TEXT_B, TEXT_B2, W5_REF]:
        c = im.construct(text)
        if c[0] != "ok":
            return None, (text, c)
        ref[text] = dict(panel=[im.call(c[1], e) for e in PANEL], ast=im.parse(text)[1], gen=im.raw_codegen(text, False))
    return ref, None


def run_threads(workers, timeout):
    ths = [threading.Thread(target=w, daemon=True) for w in workers]
    for t in ths:
        t.start()
    deadline = time.time() + timeout
    for t in ths:
        t.join(max(0.1, deadline - time.time()))
    return not any(t.is_alive() for t in ths)


def cold_start(ctx, ref):
    """W8: fresh interpreters whose first-ever constructions happen in 2..16 threads released together; whatever is
    initialised lazily on first use is raced here and nowhere else"""
    import json
    import shutil
    import subprocess
    import tempfile

    from pyabv.run import HOME, PYTHON, REPO, jsonable

    n = ctx.n(3, 40)
    tmp = tempfile.mkdtemp(prefix="pyabv-cold-")
    try:
        for i in range(n):
            nthreads = [16, 2, 8, 4, 16, 12][i % 6]
            out = os.path.join(tmp, f"cold{i}.json")
            env = dict(os.environ, PYTHONPATH=f"{HOME}:{os.path.join(REPO, 'src')}")
            try:
                flags = ["--fast-clock"] if i % 3 == 1 else []
                p = subprocess.run([PYTHON, "-B", "-m", "pyabv.cold_child", str(nthreads), out, *flags], env=env, cwd=HOME, capture_output=True, timeout=300)
            except subprocess.TimeoutExpired:
                ctx.set_inconclusive("cold-start child watchdog fired")
                return
            if p.returncode != 0 or not os.path.exists(out):
                ctx.set_inconclusive("cold-start child failed: " + p.stderr.decode("utf-8", "replace")[-300:])
                return
            with open(out, encoding="ascii") as f:
                rows = json.load(f)
            ctx.count("runs/W8-cold-start")
            for ti, row in enumerate(rows):
                wit = dict(workload="W8 cold start", child=i, threads=nthreads, thread=ti)
                if row is None:
                    ctx.set_inconclusive("cold-start child: a thread did not finish")
                    return
                text = SOURCES[row["source"]]
                want = jsonable(ref[text]["panel"])
                if row.get("panel") != want:
                    ctx.violation("differs-from-sequential", dict(wit, kind="first-ever construction of the process", text=text[:300],
                                                                  detail=row.get("construct") or row.get("raised") or row.get("panel")[:3]),
                                  mechanism="C17/differs-from-sequential")
                    return
                ctx.evaluated()
                ctx.nontrivial(ctx.shard, "cold", i, ti)
    finally:
        shutil.rmtree(tmp, ignore_errors=True)


def deep_ladder(variant, rungs=1600, bulk=1_000_000):
    arms = "\n".join(f'{"if" if k == 0 else "else if"} x=={k}{{return {k + variant} weighted 1}}' for k in range(rungs))
    return (f"def ladder_{variant} {{ splitters: uid /* ladder {variant}\n if x == 0 {{ return 'never' weighted 1 }} */\n{arms}\n"
            f"else {{ return '{'b' * bulk}{variant}' weighted 1, 'floor' weighted 1 }} }}")


def deep_ladder_rounds(ctx, im, base_limit, rounds):
    """W9 (escalation): run only after a concurrent run left sys.getrecursionlimit() different from what the sequential
    reference left - i.e. something saves / changes / restores the interpreter-wide limit without synchronisation.  The
    harmful order is: the thread that saved the low value leaves first while another is still deep in a traversal.  Two
    constructions of >1000-rung ladders, the second staggered by a fraction of one construction, limit reset every round."""
    def outcome(text):
        c = im.construct(text)
        if c[0] != "ok":
            return ("construction raised", c[1])
        return ("built", [im.call(c[1], dict(uid=u, x=x)) for x in (0, 131, 1599, 1600, -1) for u in ("a", 3)])

    texts = [deep_ladder(0), deep_ladder(1)]
    sys.setrecursionlimit(base_limit)
    want, secs = [], []
    for t in texts:
        t0 = time.time()
        want.append(outcome(t))
        secs.append(time.time() - t0)
        sys.setrecursionlimit(base_limit)
    one = min(secs)
    stagger = (0.3, 0.4, 0.2, 0.5, 0.35, 0.25, 0.45, 0.15, 0.55)
    for r in range(rounds):
        sys.setrecursionlimit(base_limit)
        sys.setswitchinterval(1e-4)
        got = [None, None]
        barrier = threading.Barrier(2)

        def worker(which, delay):
            barrier.wait()
            time.sleep(delay)
            got[which] = outcome(texts[which])

        first = r % 2
        ths = [threading.Thread(target=worker, args=(first, 0.0), daemon=True),
               threading.Thread(target=worker, args=(1 - first, stagger[r % len(stagger)] * one), daemon=True)]
        for t in ths:
            t.start()
        for t in ths:
            t.join(300)
        ctx.count("runs/W9-deep-ladder-escalation")
        for which in (0, 1):
            ctx.evaluated()
            if got[which] is None:
                ctx.set_inconclusive("W9 watchdog fired")
                return
            if got[which] != want[which]:
                def short(o):
                    return [o[0], o[1] if o[0] != "built" else str(o[1][:2])[:120]]
                ctx.violation("differs-from-sequential", dict(workload="W9 two staggered constructions of 1600-rung ladders", round=r,
                                                              kind="huge-construction", alone=short(want[which]), concurrently=short(got[which]),
                                                              recursion_limit_baseline=base_limit),
                              mechanism="C17/differs-from-sequential")
                return
    sys.setrecursionlimit(base_limit)
    sys.setswitchinterval(1e-6)


def run(ctx):
    im = impl()
    rnd = ctx.rnd
    ref, err = sequential_reference(im)
    if ref is None:
        ctx.violation("sequential-construction-failed", dict(text=err[0], error=err[1][1:]), mechanism="C17/sequential-baseline")
        return
    cold_start(ctx, ref)
    if ctx.nviolations:
        return
    old_interval = sys.getswitchinterval()
    base_limit = sys.getrecursionlimit()  # what the sequential reference run left behind
    limit_changed = 0
    sys.setswitchinterval(1e-6)
    inter = Interleaver()
    nruns = ctx.n(24, 14 * 48)
    total_overlap = total_calls = 0
    try:
        for run_i in range(nruns):
            nthreads = rnd.choice([2, 4, 8, 16])
            inject = run_i % 2 == 1
            workload = ["W1", "W5", "W2", "W3", "W4", "W6"][run_i % 6] if run_i % 12 < 6 else rnd.choice(["W1", "W1", "W5", "W5", "W2", "W3", "W3", "W4", "W6", "W10", "W10"])
            if run_i % 12 == 5 and ctx.shard % 2:
                workload = "W10"
            if workload == "W6":
                nthreads = max(nthreads, 4)
            if run_i % 12 == 11:
                workload, nthreads, inject = "W7", 3, False
            ops = (8 if inject else 30) if ctx.quick() else (12 if inject else 60)
            logs = [[] for _ in range(nthreads)]
            errors = [[] for _ in range(nthreads)]
            seed = rnd.getrandbits(32)
            sys.setrecursionlimit(base_limit)
            from pyabv.impl import host_settings

            fast_clock = (run_i + ctx.shard) % 2 == 0 and workload in ("W1", "W5")
            if fast_clock:
                ctx.count("runs/with-a-clock-running-3600x-fast")
            with ParseOverlap(im) as ov, host_settings("clock" if fast_clock else None):
                if inject:
                    inter.start(p=0.125, seed=seed)
                start = threading.Barrier(nthreads)
                shared = {}
                if workload == "W1":
                    def make(ti):
                        r = random.Random(seed + ti)

                        def work():
                            start.wait()
                            for k in range(ops):
                                text = r.choice(SOURCES)
                                try:
                                    mode = r.random()
                                    if mode < 0.6:
                                        ev = im.Evaluator(text)
                                        got = [im.call(ev, e) for e in PANEL]
                                        logs[ti].append((k, "construct+panel", text, got == ref[text]["panel"], None if got == ref[text]["panel"] else got))
                                    elif mode < 0.8:
                                        ast = im.wf.parse_source(text)
                                        logs[ti].append((k, "parse_source", text, ast == ref[text]["ast"], None))
                                    else:
                                        gen = im.raw_codegen(text, False)
                                        logs[ti].append((k, "codegen", text, gen == ref[text]["gen"], None))
                                except Exception as e:  # noqa: BLE001
                                    errors[ti].append((k, text, type(e).__name__, str(e)[:160]))
                        return work
                elif workload == "W5":
                    # every thread builds its own revisions of ONE experiment name (labels unique per construction);
                    # the index a unit maps to is the same for every revision, so the expected label is known
                    base_idx = shared.setdefault("w5_idx", [SUFFIX.index(o[1][-1]) for o in ref[W5_REF]["panel"]])

                    def make(ti):
                        r = random.Random(seed + ti)

                        def work():
                            start.wait()
                            for k in range(ops):
                                tag = f"t{ti}k{k}"
                                text = w5_text(tag)
                                try:
                                    ev = im.Evaluator(text)
                                    got = [im.call(ev, e) for e in PANEL]
                                    want = [("ok", tag + SUFFIX[i]) for i in base_idx]
                                    logs[ti].append((k, "same-name-revision", text, got == want, None if got == want else got[:3]))
                                except Exception as e:  # noqa: BLE001
                                    errors[ti].append((k, text, type(e).__name__, str(e)[:160]))
                        return work
                elif workload == "W6":
                    # everything at once: thread 0 toggles one shared evaluator between A and B, threads 1-2 construct,
                    # the others call the toggled evaluator and a pool of stable shared evaluators
                    evs = {t: im.Evaluator(t) for t in SOURCES}
                    ev_ab = im.Evaluator(TEXT_A)
                    shared["stop"] = False
                    shared["swaps"] = 0

                    def make(ti):
                        r = random.Random(seed + ti)

                        def work():
                            start.wait()
                            try:
                                if ti == 0:
                                    cur = TEXT_A
                                    for k in range(ops * 2 + 1):
                                        cur = TEXT_B if cur == TEXT_A else TEXT_A
                                        ev_ab.recompile(cur)
                                        shared["swaps"] += 1
                                    shared["final"] = (ev_ab, cur)
                                    shared["stop"] = True
                                elif ti in (1, 2):
                                    k = 0
                                    while not shared["stop"] and k < ops * 4:
                                        text = r.choice(SOURCES)
                                        ev = im.Evaluator(text)
                                        got = [im.call(ev, e) for e in PANEL]
                                        logs[ti].append((k, "construct+panel", text, got == ref[text]["panel"], None if got == ref[text]["panel"] else got[:3]))
                                        k += 1
                                else:
                                    k = 0
                                    while not shared["stop"] and k < ops * 300:
                                        j = r.randrange(len(PANEL))
                                        if k % 2:
                                            got = im.call(ev_ab, PANEL[j])
                                            allowed = [ref[TEXT_A]["panel"][j], ref[TEXT_B]["panel"][j]]
                                            ok = got in allowed
                                            logs[ti].append((k, "racing-call", "W6", ok, None if ok else (got, allowed)))
                                        else:
                                            text = r.choice(SOURCES)
                                            got = im.call(evs[text], PANEL[j])
                                            ok = got == ref[text]["panel"][j]
                                            logs[ti].append((k, "shared-call", text, ok, None if ok else got))
                                        k += 1
                            except Exception as e:  # noqa: BLE001
                                errors[ti].append((0, workload, type(e).__name__, str(e)[:160]))
                                shared["stop"] = True
                        return work
                elif workload == "W7":
                    # very long parses (an else-if ladder far beyond the explored sizes): whatever a construction does
                    # alone - succeed or fail with some error - it must do under concurrency as well
                    shared.setdefault("w7", None)
                    if "w7_seq" not in SEQ_CACHE:
                        SEQ_CACHE["w7_text"] = chain(1500)
                        c0 = im.construct(SEQ_CACHE["w7_text"])
                        SEQ_CACHE["w7_seq"] = "ok" if c0[0] == "ok" else c0[1]
                    big, want = SEQ_CACHE["w7_text"], SEQ_CACHE["w7_seq"]

                    def make(ti):
                        r = random.Random(seed + ti)

                        def work():
                            start.wait()
                            for k in range(2):
                                time.sleep(r.random() * 0.2)
                                try:
                                    im.Evaluator(big)
                                    got = "ok"
                                except Exception as e:  # noqa: BLE001
                                    got = type(e).__name__
                                logs[ti].append((k, "huge-construction", "chain(1500)", got == want, None if got == want else (got, want)))
                        return work
                elif workload == "W10":
                    # several threads reload ONE evaluator at the same time, all with the same new text (a configuration
                    # push reaching every worker at once): when a thread's recompile() has returned, that thread's calls see
                    # the new experiment - as they would sequentially
                    ev = im.Evaluator(TEXT_A)
                    gens = [TEXT_B, TEXT_A, TEXT_B2, TEXT_A, TEXT_B][: 3 if ctx.quick() else 5]
                    gen_barrier = threading.Barrier(nthreads)

                    def make(ti):
                        def work():
                            start.wait()
                            for g, text in enumerate(gens):
                                try:
                                    gen_barrier.wait(120)
                                    ev.recompile(text)
                                    got = [im.call(ev, e) for e in PANEL]
                                    ok = got == ref[text]["panel"]
                                    logs[ti].append((g, "own-recompile-then-call", text, ok, None if ok else (got[:3], ref[text]["panel"][:3])))
                                    gen_barrier.wait(120)
                                except threading.BrokenBarrierError:
                                    return
                                except Exception as e:  # noqa: BLE001
                                    errors[ti].append((g, text, type(e).__name__, str(e)[:160]))
                                    gen_barrier.abort()
                                    return
                        return work
                elif workload == "W2":
                    evs = {t: im.Evaluator(t) for t in SOURCES}

                    def make(ti):
                        r = random.Random(seed + ti)

                        def work():
                            start.wait()
                            for k in range(ops * 20):
                                text = r.choice(SOURCES)
                                j = r.randrange(len(PANEL))
                                try:
                                    got = im.call(evs[text], PANEL[j])
                                    ok = got == ref[text]["panel"][j]
                                    logs[ti].append((k, "shared-call", text, ok, None if ok else got))
                                except Exception as e:  # noqa: BLE001
                                    errors[ti].append((k, text, type(e).__name__, str(e)[:160]))
                        return work
                else:
                    ev = im.Evaluator(TEXT_A)
                    shared["stop"] = False
                    shared["swaps"] = 0
                    shared["bad_accepted"] = []
                    text_b = TEXT_B2 if run_i % 2 else TEXT_B  # the new revision may also carry another experiment name

                    def make(ti):
                        r = random.Random(seed + ti)
                        if ti == 0:
                            def work():
                                start.wait()
                                cur = TEXT_A
                                for k in range(ops * 3 + 1):  # odd: the race ends on the other text
                                    try:
                                        if workload == "W3":
                                            cur = text_b if cur == TEXT_A else TEXT_A
                                            ev.recompile(cur)
                                            shared["swaps"] += 1
                                        else:
                                            bad = r.choice(TEXT_BAD)
                                            try:
                                                import contextlib
                                                import io

                                                with contextlib.redirect_stderr(io.StringIO()):
                                                    ev.recompile(bad)
                                                shared["bad_accepted"].append(bad)
                                            except Exception:  # noqa: BLE001
                                                shared["swaps"] += 1
                                    except Exception as e:  # noqa: BLE001
                                        errors[ti].append((k, cur, type(e).__name__, str(e)[:160]))
                                shared["final"] = (ev, cur)
                                shared["stop"] = True
                            return work

                        def work():
                            start.wait()
                            k = 0
                            while not shared["stop"] and k < ops * 400:
                                j = r.randrange(len(PANEL))
                                try:
                                    got = im.call(ev, PANEL[j])
                                    allowed = [ref[TEXT_A]["panel"][j]] + ([ref[text_b]["panel"][j]] if workload == "W3" else [])
                                    ok = got in allowed
                                    logs[ti].append((k, "racing-call", workload, ok, None if ok else (got, allowed)))
                                except Exception as e:  # noqa: BLE001
                                    errors[ti].append((k, workload, type(e).__name__, str(e)[:160]))
                                k += 1
                        return work
                finished = run_threads([make(ti) for ti in range(nthreads)], timeout=240)
                inter.stop()
                if finished and shared.get("final") and not any(errors):
                    # the last recompile has returned (its thread is joined): from now on *every* thread - this one, which
                    # built the evaluator, and one that never touched it - sees that experiment and nothing else
                    fev, ftext = shared["final"]
                    want_final = ref[ftext]["panel"]
                    views = {"constructing-thread": [im.call(fev, e) for e in PANEL]}
                    box = []
                    th = threading.Thread(target=lambda: box.append([im.call(fev, e) for e in PANEL]), daemon=True)
                    th.start()
                    th.join(60)
                    if box:
                        views["fresh-thread"] = box[0]
                    for who, got in views.items():
                        ok = got == want_final
                        logs[0].append((10**9, "after-last-recompile-returned:" + who, ftext, ok, None if ok else (got[:3], want_final[:3])))
                total_overlap += ov.overlapped_calls
                total_calls += ov.calls
                ctx.count("parse_source/calls", ov.calls)
                ctx.count("parse_source/calls-overlapping-another-thread", ov.overlapped_calls)
                cur = ctx.notes.get("max_threads_simultaneously_in_parse_source", 0)
                ctx.note("max_threads_simultaneously_in_parse_source", max(cur, ov.max_inside))
            if finished and sys.getrecursionlimit() != base_limit:
                # interpreter-wide state that sequential use leaves alone was left changed by a concurrent run
                limit_changed += 1
                ctx.count("interpreter-state/recursion-limit-left-changed-by-a-concurrent-run")
                if limit_changed == 1:
                    deep_ladder_rounds(ctx, im, base_limit, 9 if ctx.quick() else 40)
                    if ctx.nviolations:
                        break
            if not finished:
                ctx.set_inconclusive(f"run {run_i} ({workload}, {nthreads} threads) watchdog fired: threads still alive")
                break
            wit = dict(run=run_i, workload=workload, threads=nthreads, yield_injection=inject, seed=seed)
            for ti in range(nthreads):
                if errors[ti]:
                    k, text, en, msg = errors[ti][0]
                    ctx.violation("worker-raised", dict(wit, thread=ti, op=k, text=text[:300], error=[en, msg], errors_in_thread=len(errors[ti])),
                                  mechanism="C17/worker-raised")
                    break
                badlog = [x for x in logs[ti] if not x[3]]
                if badlog:
                    k, kind, text, _, detail = badlog[0]
                    ctx.violation("differs-from-sequential", dict(wit, thread=ti, op=k, kind=kind, text=str(text)[:300], detail=detail,
                                                                  wrong_results=len(badlog)), mechanism="C17/differs-from-sequential")
                    break
                for k, kind, text, _, _ in logs[ti]:
                    ctx.evaluated()
                    ctx.nontrivial(ctx.shard, run_i, ti, k)
            if shared.get("bad_accepted"):
                ctx.violation("invalid-text-accepted-under-race", dict(wit, text=shared["bad_accepted"][0]), mechanism="C17/invalid-accepted")
            ctx.count(f"runs/{workload}")
            ctx.count("runs/with-yield-injection" if inject else "runs/switch-interval-only")
            ctx.count("recompiles-during-races", shared.get("swaps", 0))
            ctx.seen("thread_counts", nthreads)
            if ctx.nviolations:
                break
    finally:
        inter.stop()
        sys.setswitchinterval(old_interval)
        sys.setrecursionlimit(base_limit)
    ctx.count("line-events", inter.events)
    ctx.count("cross-thread-switches-between-line-events", inter.switches)
    sig = inter.sig
    windows = {tuple(sig[i: i + 16]) for i in range(0, max(0, len(sig) - 16), 4)}
    ctx.count("distinct-interleaving-signatures(16-switch windows)", len(windows))
    ctx.layer("line-event-yield-injection", "observed" if inter.events else "unreachable", events=inter.events, switches=inter.switches)
    ctx.layer("parse-overlap-probe", "observed" if total_calls else "unreachable", calls=total_calls, overlapping=total_overlap)
    if total_overlap == 0 and inter.switches == 0 and not ctx.nviolations:
        ctx.set_inconclusive("no evidence of interleaving: no two threads were ever inside parse_source at the same time and no "
                             "cross-thread switch was seen between line events")
    ctx.sample(dict(workloads=["W1 construct", "W5 same-name revisions", "W2 shared calls", "W3 A/B recompile race", "W4 failing recompile race"],
                    sources=len(SOURCES), example_source=SOURCES[1]))


def replay(ctx, kind, w):
    """races do not replay deterministically: re-run the same workload shape a few times"""
    ctx.tier = "quick"
    ctx.nshards = 1
    run(ctx)
