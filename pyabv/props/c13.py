"""C13 - source text is inert data: literals cannot inject code.

Harmless-twin differential: every program is compared with the same program whose string
literals and salt are replaced by s0, s1, ...  (i) generated Python (both PythonCodeGen layouts
and generate_code text) must have the same ast.dump once constants are masked; (ii) generated
code must call the same callables as the twin's (sys.monitoring CALL events from "<string>" code);
(iii) sentinel callables planted in builtins are never invoked; (iv) audit events (compile, exec,
import, open, os.*, subprocess.*) of construct+evaluate match the twin's; (v) construction succeeds.
"""

from __future__ import annotations

import ast

from pyabv.gen import literals as L
from pyabv.gen.programs import Profile, ProgGen
from pyabv.gen.trivia import token_slices
from pyabv.impl import AuditRecorder, CallMonitor, Sentinels, impl
from pyabv.props.common import ref_parse
from pyabv.ref.lex import tokenize

RULE = (
    "cases = (payload string, position) programs and their harmless twins; payloads over an adversarial alphabet (both "
    "quotes, backslash, parentheses, +, braces, %, #, comma, colon, escape look-alikes \\n \\x41 \\N{..} \\u0027) and "
    "templated call payloads (string-closing, partial(-closing, f-string / %-format shapes, triple quotes), placed in: "
    "salt, group label, left / right operand, tuple member, nested tuple member, several at once; plus random generated "
    "programs with hostile literals. distinct_nontrivial = distinct (payload, position) where the payload contains a "
    "quote or a backslash."
    " Added later: every quoting payload also inside non-ASCII / non-printable / long strings; 'mirror' payloads (round 9): printed forms of every node of the real parser's tree of the program under test and fragments of its generated code; self-referential payloads (lines of the generator's own output); payloads inside block and line comments."
)
ASSUMPTIONS = [
    "payloads only ever call sentinels planted by the harness; nothing destructive is attempted",
    "callee sets are compared by qualified name; only calls made from code objects compiled from '<string>' are recorded",
]
QUICK_SHARDS = 4
MIN_NONTRIVIAL = {"quick": 900, "thorough": 40000}

TEMPLATED = [
    "'+str(PWNED())+'", '"+str(PWNED())+"', "\\'+PWNED()+\\'", '\\"+PWNED()+\\"', "' if PWNED() else '", "' or PWNED() or '",
    "'))]) or PWNED() or ((['", "')]) or PWNED() or str(['", "', PWNED(), '", "'], weights=[PWNED()]) #", "');PWNED();('",
    "'\\nPWNED()\\n'", "\\\\'+PWNED()+\\\\'", "'''+PWNED()+'''", '"""+PWNED()+"""', "{PWNED()}", "{0.__class__}", "%(PWNED)s",
    "%s' % PWNED() + '", "' + __import__('os').getcwd() + '", "'+str(print('PWNED'))+'", "'+open('/etc/hostname').read()+'",
    "\\'; import os; PWNED() #", "'\\x27+PWNED()+\\x27'", "\\x27+PWNED()+\\x27", "\\u0027+PWNED()+\\u0027", "\\N{APOSTROPHE}+PWNED()+\\N{APOSTROPHE}",
    "\\047+PWNED()+\\047", "'): \n\tPWNED()", "' if (PWNED() or True) else '", "'+str(exec('PWNED()'))+'", "'+str(eval('PWNED()'))+'",
    "#", "'#", "\\", "\\\\", "a\\", "\\'", '\\"', "'", '"', "''", '""', "'''", '"""', "\\\\'", "(", ")", "((", "))", "[", "]", "{", "}", ",", ":", ";",
    "+", "%", "%s", "%d", "{}", "{0}", "{{", "}}", "\\n", "\\t", "\\r", "\\0", "\\x41", "\\x", "\\u0041", "\\U0001F600", "\\N{BULLET}", "\\N{",
    "\\N{NOT A NAME}", "\\u00", "\\400", "\r", "\t", "\x00", "\x0b", "\x0c", "\x1b", "\x85", " ", " ", "﻿", "é", "日本", "\U0001f600",
    "x\rPWNED()", "\rPWNED()#", "x\x0cPWNED()", "x\x0bPWNED()", "x\x1cPWNED()", "x\x1ePWNED()", "x\x85PWNED()", "x\u2028PWNED()",
    "x\u2029PWNED()", "x\r\tPWNED()", "x\x00PWNED()", "x\x1aPWNED()", "x\\\rPWNED()",
    "name", "id", "group_definition", "left_term", "__root__", "$key", "$$", "${name}", "$args", "$params",
    "lambda: PWNED()", "PWNED()", "PWNED", "__import__", "f'{PWNED()}'", "rb'x'", "None", "True", "partial", "deterministic_choice",
]
ALPHABET = "'\"\\(){}[]+%#,:; nxNu01aPWED\t\u00e9"
# a renderer may pick its escaping routine by the *class* of the string (ASCII or not, printable or not, short or long):
# every quoting payload is also tried inside such a string
DECORATIONS = [lambda p: "\u00e9" + p, lambda p: p + "\U0001f600", lambda p: "\u65e5\u672c" + p + "\u00df", lambda p: "\x7f" + p,
               lambda p: "a" * 200 + p, lambda p: "\x00" + p, lambda p: p + "\u2028", lambda p: "\u00a0" + p]


def expressible(s):
    return "\n" not in s and not ("'" in s and '"' in s)


def q(s):
    return L.render_lit(L.str_lit(s))


# pairs of literals that only misbehave together (an opener in one literal, its closer in a later one on the same line)
PAIRS = [("x/*", "*/y"), ("/*", "*/"), ("a//", "b"), (", "), ('"""', '"""'), ("\\", "'"), ("x{", "}y"), ("(", ")"),
         ("x\\", "y\\"), ("#", "\r"), ("%(", ")s"), ("/*PWNED()", "PWNED()*/"), ("*/PWNED()/*", "*/PWNED()/*"), ("f'{", "}'")]
PAIR_POSITIONS = {
    "two-groups": lambda A, B: f'def p {{ splitters: u return {A} weighted 1, {B} weighted 1, "c" weighted 1 }}',
    "two-operands": lambda A, B: f'def p {{ splitters: u if f == {A} {{ return "T" weighted 1 }} else if f == {B} {{ return "U" weighted 1 }} '
                                 f'else {{ return "F" weighted 1 }} }}',
    "salt-and-group": lambda A, B: f'def p {{ salt: {A} splitters: u return {B} weighted 1, "c" weighted 1 }}',
    "tuple-pair": lambda A, B: f'def p {{ if f in ({A}, "m", {B}) {{ return "T" weighted 1 }} else {{ return "F" weighted 1 }} }}',
}

POSITIONS = {
    "salt": lambda S: f'def p {{ salt: {S[0]} splitters: u return "a" weighted 1, "b" weighted 1 }}',
    "group": lambda S: f'def p {{ splitters: u return {S[0]} weighted 1, "b" weighted 1 }}',
    "group-in-branch": lambda S: f'def p {{ splitters: u if f == 1 {{ return "x" weighted 1 }} else {{ return "b" weighted 0, {S[0]} weighted 2 }} }}',
    "right-operand": lambda S: f'def p {{ splitters: u if f == {S[0]} {{ return "T" weighted 1 }} else {{ return "F" weighted 1 }} }}',
    "left-operand": lambda S: f'def p {{ splitters: u if {S[0]} != f {{ return "T" weighted 1 }} else {{ return "F" weighted 1 }} }}',
    "ordering-operand": lambda S: f'def p {{ if f >= {S[0]} {{ return "T" weighted 1 }} else {{ return "F" weighted 1 }} }}',
    "tuple-member": lambda S: f'def p {{ splitters: u if f in ({S[0]}, "x") {{ return "T" weighted 1 }} else {{ return "F" weighted 1 }} }}',
    "single-tuple": lambda S: f'def p {{ if f not in ({S[0]}) {{ return "T" weighted 1 }} else {{ return "F" weighted 1 }} }}',
    "nested-tuple-member": lambda S: f'def p {{ if f in (({S[0]}, "y"), ("z", {S[1]})) {{ return "T" weighted 1 }} else {{ return "F" weighted 1 }} }}',
    "pair-tuple-key": lambda S: f'def p {{ if f in ((({S[0]}, "gold"), ("region", "emea")), 7) {{ return "T" weighted 1 }} else {{ return "F" weighted 1 }} }}',
    "pair-tuple-value": lambda S: f'def p {{ if f in ((("name", {S[0]}), ("region", "emea")), 7) {{ return "T" weighted 1 }} else {{ return "F" weighted 1 }} }}',
    "everywhere": lambda S: f'def p {{ salt: {S[0]} splitters: u if f == {S[1]} or f in ({S[2]}, ({S[3]})) {{ return {S[4]} weighted 1 }} else {{ return {S[5]} weighted 1, "b" weighted 1 }} }}',
}
NSLOTS = {"nested-tuple-member": 2, "everywhere": 6}


def masked_dump(src):
    tree = ast.parse(src)
    for node in ast.walk(tree):
        if isinstance(node, ast.Constant):
            node.value = 0
            node.kind = None
        elif isinstance(node, ast.JoinedStr):
            # the literal parts of an f-string are constants; Python's parser drops an empty one and merges adjacent
            # ones, so their number is a property of the constants' *values*, not of the structure
            node.values = [v for v in node.values if not isinstance(v, ast.Constant)]
    return ast.dump(tree)


_twin_cache = {}


def codegen_variants(im, text, with_black=True, cache=False):
    """-> {variant: masked dump or ('error', ..)}"""
    if cache and (text, with_black) in _twin_cache:
        return _twin_cache[(text, with_black)]
    out = _codegen_variants(im, text, with_black)
    if cache:
        _twin_cache[(text, with_black)] = out
    return out


def _codegen_variants(im, text, with_black):
    out = {}
    variants = [("raw-nested", lambda: im.raw_codegen(text, False)), ("raw-exposed", lambda: im.raw_codegen(text, True))]
    if with_black:
        variants += [("black-nested", lambda: im.generate_text(text, False)), ("black-exposed", lambda: im.generate_text(text, True))]
    for name, fn in variants:
        try:
            out[name] = masked_dump(fn())
        except SyntaxError as e:
            out[name] = ("syntax-error", str(e)[:120])
        except Exception as e:  # noqa: BLE001
            out[name] = ("error", type(e).__name__, str(e)[:120])
    return out


def observe(im, text, envs, with_audit=True):
    """construct + evaluate under all probes -> dict(callees, audit, outcome kinds) or ('construct-failed', ..)"""
    res = {}
    with AuditRecorder() as aud:
        c = im.construct(text)
        if c[0] != "ok":
            return dict(failed=c[1:])
        with CallMonitor() as mon:
            outs = [im.call(c[1], env) for env in envs]
    res["callees"] = mon.callees
    res["call_events"] = mon.events
    res["audit"] = sorted(aud.events)
    res["outcomes"] = [o[0] if o[0] != "exc" else o[:2] for o in outs]
    return res


def normalise(callees):
    return set(callees)


def compare(ctx, im, text, twin, envs, twin_envs, payload, position, sent, with_black=True):
    ctx.evaluated()
    nt = any(ch in payload for ch in "'\"\\")
    if nt:
        ctx.nontrivial(payload, position)
    wit = dict(text=text, twin=twin, payload=payload, position=position)
    # (i) structure of the generated code
    a, b = codegen_variants(im, text, with_black), codegen_variants(im, twin, with_black, cache=True)
    for variant in a:
        if a[variant] != b[variant]:
            what = a[variant] if isinstance(a[variant], tuple) else "masked ast differs from the harmless twin's"
            ctx.violation("generated-structure-changed", dict(wit, variant=variant, what=what), mechanism="C13/structure-changed")
            return
    # warm-up (imports are cached after the first time), then the recorded runs: twin first
    observe(im, twin, twin_envs)
    before = len(sent.hits)
    observe(im, text, envs)
    t = observe(im, twin, twin_envs)
    x = observe(im, text, envs)
    if "failed" in x or "failed" in t:
        if "failed" in x and "failed" not in t:
            ctx.violation("construction-failed", dict(wit, error=x["failed"]), mechanism="C13/structure-changed")
        else:
            ctx.count("harness/twin-failed-to-construct")
        return
    if len(sent.hits) > before:
        ctx.violation("sentinel-invoked", dict(wit, hits=sent.hits[before:before + 3]), mechanism="C13/code-executed")
        return
    extra = x["callees"] - t["callees"]
    if extra:
        ctx.violation("unexpected-callee", dict(wit, extra=sorted(extra), twin_callees=sorted(t["callees"])),
                      mechanism="C13/code-executed")
        return
    if x["audit"] != t["audit"]:
        ctx.violation("audit-events-differ", dict(wit, adversarial=x["audit"][:20], twin=t["audit"][:20]),
                      mechanism="C13/code-executed")
        return
    bad = [(o, o2) for o, o2 in zip(x["outcomes"], t["outcomes"]) if isinstance(o, tuple) and not isinstance(o2, tuple)]
    if bad:
        ctx.violation("evaluation-raised", dict(wit, outcome=bad[0][0], twin_outcome=bad[0][1]), mechanism="C13/structure-changed")
        return
    ctx.count("clean/" + position)
    ctx.count("call-events-observed", x["call_events"])
    for c in x["callees"]:
        ctx.seen("skeleton_callees", c)
    for e in x["audit"]:
        ctx.seen("audit_events", e.split(":")[0])


def _mirror_strings(obj, out, depth=0):
    """printed forms of every node / value of a (pydantic) syntax tree"""
    if depth > 12:
        return
    for f in (str, repr):
        try:
            out.add(f(obj))
        except Exception:  # noqa: BLE001
            pass
    if hasattr(obj, "__fields__") and hasattr(obj, "__dict__"):
        for f in ("json", "dict"):
            try:
                out.add(str(getattr(obj, f)()))
            except Exception:  # noqa: BLE001
                pass
        for k, v in obj.__dict__.items():
            out.add(k)
            _mirror_strings(v, out, depth + 1)
    elif isinstance(obj, (tuple, list, set, frozenset)):
        for v in obj:
            _mirror_strings(v, out, depth + 1)
    elif isinstance(obj, dict):
        for k, v in obj.items():
            _mirror_strings(k, out, depth + 1)
            _mirror_strings(v, out, depth + 1)
    elif hasattr(obj, "value") and hasattr(obj, "name"):  # enum members
        out.add(str(obj.value))
        out.add(str(obj.name))


def run(ctx):
    im = impl()
    rnd = ctx.rnd
    payloads = [p for p in TEMPLATED if expressible(p)]
    dropped = [p for p in TEMPLATED if not expressible(p)]
    ntempl = len(payloads)
    decorated = []
    for j, p in enumerate(payloads):
        if any(ch in p for ch in "'\"\\") and "PWNED" in p:
            decorated.append(DECORATIONS[j % len(DECORATIONS)](p))
            if not ctx.quick():
                decorated.append(DECORATIONS[(j + 3) % len(DECORATIONS)](p))
    payloads += [p for p in decorated if expressible(p)]
    ctx.note("decorated_payloads", len(decorated))
    # self-referential payloads: lines of the code the generator itself emits (banner comments, import lines, the helper's def
    # line, the return line) - anything that post-processes generated text by searching for its own markers meets them here
    own = []
    try:
        gen = im.generate_text('def p { salt: "s" splitters: u if f == "a" { return "x" weighted 1, "y" weighted 1 } else { return "z" weighted 1 } }', False)
        gen += "\n" + im.raw_codegen('def p { salt: "s" splitters: u if f == "a" { return "x" weighted 1 } }', True)
        seen_lines = set()
        for line in gen.splitlines():
            t = line.strip()
            if len(t) >= 6 and t not in seen_lines:
                seen_lines.add(t)
                own += [t, t + "PWNED();p=lambda**k:'hijacked'#", t + "\\nPWNED()"]
    except Exception:  # noqa: BLE001
        pass
    own = [p for p in own if expressible(p)]
    ctx.note("self_referential_payloads", len(own))
    decorated += own  # (scheduled like the decorated ones)
    payloads += own
    ctx.note("templated_payloads_not_expressible", len(dropped))
    nrand = ctx.n(400, 20000)
    for _ in range(nrand):
        s = "".join(rnd.choice(ALPHABET) for _ in range(rnd.randint(1, 14)))
        if rnd.random() < 0.3:
            s = s[: len(s) // 2] + rnd.choice(["PWNED()", "+PWNED()+", "str(PWNED())"]) + s[len(s) // 2:]
        if expressible(s):
            payloads.append(s)
    idx = 0
    with Sentinels() as sent:
        for pi, payload in enumerate(payloads):
            for pos, tmpl in POSITIONS.items():
                idx += 1
                if pi < ntempl + len(decorated) and not ctx.mine(idx):
                    continue
                if pi >= ntempl + len(decorated) and rnd.random() < 0.6:
                    continue
                if ntempl <= pi < ntempl + len(decorated) and ctx.quick() and pos not in ("salt", "group", "right-operand", "tuple-member", "everywhere"):
                    continue
                n = NSLOTS.get(pos, 1)
                text = tmpl([q(payload)] * n)
                twin = tmpl([f'"s{i}"' for i in range(n)])
                if ref_parse(text)[0] != "ok":
                    ctx.count("harness/reference-did-not-accept")
                    continue
                fvals = [payload, "other", (payload, "y"), payload + "x", "s0"]
                tvals = ["s0", "other", ("s0", "y"), "s0x", "s0"]
                if pos == "ordering-operand":
                    fvals, tvals = [payload, "other", payload + "x", ""], ["s0", "other", "s0x", ""]
                envs = [dict(u=u, f=f) for u in ("u1", 7) for f in fvals]
                tenvs = [dict(u=u, f=f) for u in ("u1", 7) for f in tvals]
                compare(ctx, im, text, twin, envs, tenvs, payload, pos, sent, with_black=not ctx.quick() or idx % 4 == 0)
        # literals that mirror the program's own syntax tree: the printed forms (str, repr, json) of every node and value
        # of the tree the real parser builds for this very program, and the fragments of the code generated for it - a
        # renderer that memoises, de-duplicates or looks terms up by their printed form confuses such a literal with
        # the term it spells (seed C13-15)
        for pos, tmpl in POSITIONS.items():
            n = NSLOTS.get(pos, 1)
            twin = tmpl([f'"s{i}"' for i in range(n)])
            mirrors = set()
            st = im.parse(twin)
            if st[0] == "ok":
                _mirror_strings(st[1], mirrors)
            try:
                code = im.generate_text(twin, False)
                import re as _re

                mirrors.update(_re.findall(r"[A-Za-z_][A-Za-z_0-9]*|'[^'\n]*'|\"[^\"\n]*\"|\([^()\n]*\)", code))
            except Exception:  # noqa: BLE001
                pass
            mirrors = sorted(m for m in mirrors if 0 < len(m) <= 300 and expressible(m) and m not in ("s0", "s1"))
            ctx.note("mirror_payloads/" + pos, len(mirrors))
            for mi, payload in enumerate(mirrors):
                idx += 1
                if not ctx.mine(idx) or (ctx.quick() and (mi + len(pos)) % 2):
                    continue
                text = tmpl([q(payload)] * n)
                if ref_parse(text)[0] != "ok":
                    ctx.count("harness/reference-did-not-accept")
                    continue
                fvals = [payload, "other", (payload, "y"), payload + "x", "s0", "f", 1]
                tvals = ["s0", "other", ("s0", "y"), "s0x", "s0", "f", 1]
                if pos == "ordering-operand":
                    fvals, tvals = [payload, "other", payload + "x", ""], ["s0", "other", "s0x", ""]
                envs = [dict(u=u, f=f) for u in ("u1", 7) for f in fvals]
                tenvs = [dict(u=u, f=f) for u in ("u1", 7) for f in tvals]
                ctx.count("mirror-payload-cases")
                compare(ctx, im, text, twin, envs, tenvs, payload, "mirror:" + pos, sent, with_black=not ctx.quick() or idx % 4 == 0)
        # comments are source text too: nothing written in a comment may reach the generated program (docstrings, headers
        # and log messages that quote the source are where it would)
        cpos = {
            "block-comment-header": lambda P: f'/* {P} */ def p {{ splitters: u if f == "a" {{ return "T" weighted 1, "U" weighted 1 }} else {{ return "F" weighted 1 }} }}',
            "block-comment-inside": lambda P: f'def p {{ splitters: u /* {P} */ if f == "a" {{ return "T" weighted 1, /* {P} */ "U" weighted 1 }} else {{ return "F" weighted 1 }} }}',
            "line-comment": lambda P: f'def p {{ splitters: u // {P}\n if f == "a" {{ return "T" weighted 1, "U" weighted 1 }} // {P}\n else {{ return "F" weighted 1 }} }} // {P}',
        }
        cpayloads = [p for p in payloads[:ntempl] if "PWNED" in p or any(ch in p for ch in "'\"\\")] + [
            '"""', "'''", '"""; PWNED(); r"""', '"""\\nPWNED()\\n"""', "\\", "\\\"\"\"", '""" + str(PWNED()) + """', "{PWNED()}", "%(PWNED)s", "\x00", "\x0c PWNED()",
            "\r PWNED()", "# coding: latin-1", "type: ignore", "fmt: off", "noqa"]
        for ci, payload in enumerate(cpayloads):
            for pos, tmpl in cpos.items():
                idx += 1
                if not ctx.mine(idx) or (ctx.quick() and (ci + len(pos)) % 3):
                    continue
                if "*/" in payload or "\n" in payload or (pos != "line-comment" and "/*" in payload):
                    continue
                text, twin = tmpl(payload), tmpl("harmless note")
                if ref_parse(text)[0] != "ok":
                    ctx.count("harness/reference-did-not-accept")
                    continue
                envs = [dict(u=u, f=f) for u in ("u1", 7) for f in ("a", "other", payload)]
                compare(ctx, im, text, twin, envs, envs, payload, "comment:" + pos, sent, with_black=not ctx.quick() or idx % 4 == 0)
        for pi, (pa, pb) in enumerate(PAIRS):
            if not (expressible(pa) and expressible(pb)):
                continue
            for pos, tmpl in PAIR_POSITIONS.items():
                idx += 1
                if not ctx.mine(idx):
                    continue
                text2, twin2 = tmpl(q(pa), q(pb)), tmpl('"s0"', '"s1"')
                if ref_parse(text2)[0] != "ok":
                    ctx.count("harness/reference-did-not-accept")
                    continue
                fv, tv = [pa, pb, "other", pa + pb], ["s0", "s1", "other", "s0s1"]
                compare(ctx, im, text2, twin2, [dict(u=u, f=f) for u in ("u1", 7) for f in fv],
                        [dict(u=u, f=f) for u in ("u1", 7) for f in tv], pa + " | " + pb, "pair:" + pos, sent)
        ctx.sample(dict(text=text, twin=twin))
        # random generated programs with hostile literals: twin by token substitution; callees are compared with the
        # skeleton observed on a fixed harmless program (group outcome and unroutable outcome)
        sk = observe(im, 'def h { salt: "s" splitters: u if f == "a" { return "x" weighted 1, "y" weighted 1 } else if f in ("b", ("c")) '
                         '{ return "z" weighted 1 } }', [dict(u=1, f="a"), dict(u=2, f="b"), dict(u=3, f="q")])
        skeleton = normalise(sk["callees"])
        ctx.note("skeleton_callees_of_fixed_harmless_program", sorted(skeleton))
        nprog = ctx.n(80, 12000)
        pg = ProgGen(rnd, Profile(max_depth=2, max_arms=3, pred_depth=2, hard_literals=0.9, splitters=(1, 2)))
        for i in range(nprog):
            gp = pg.program()
            toks = tokenize(gp.text)
            slices = token_slices(gp.text)
            k = 0
            tw = []
            strs = []
            for t, sl in zip(toks, slices):
                if t.kind == "STR":
                    tw.append(f'"s{k}"')
                    strs.append(t.text)
                    k += 1
                else:
                    tw.append(sl)
            if not k:
                continue
            twin = " ".join(tw)
            payload = max(strs, key=lambda s: sum(ch in "'\"\\" for ch in s))
            from pyabv.props.common import Inferred, choose_inputs

            stx, stt = ref_parse(gp.text), ref_parse(twin)
            if stx[0] != "ok" or stt[0] != "ok":
                ctx.count("harness/reference-did-not-accept")
                continue
            envs, _ = choose_inputs(stx[1], gp, rnd, 6, pool_factor=2)
            tenvs, _ = choose_inputs(stt[1], Inferred(stt[1], twin), rnd, 6, pool_factor=2)
            # routing may differ between program and twin (different literal values): compare callee *sets* only when
            # both sides reached a group; the unroutable error is part of the skeleton
            compare_random(ctx, im, gp.text, twin, envs, tenvs, payload, sent, skeleton, with_black=not ctx.quick() or i % 4 == 0)
        ctx.layer("call-monitor", "observed" if ctx.counters.get("call-events-observed") else "unreachable",
                  events=ctx.counters.get("call-events-observed", 0))


def compare_random(ctx, im, text, twin, envs, tenvs, payload, sent, skeleton, with_black=True):
    ctx.evaluated()
    if any(ch in payload for ch in "'\"\\"):
        ctx.nontrivial(payload, "random-program", text)
    wit = dict(text=text, twin=twin, payload=payload, position="random-program")
    a, b = codegen_variants(im, text, with_black), codegen_variants(im, twin, with_black)
    for variant in a:
        if a[variant] != b[variant]:
            what = a[variant] if isinstance(a[variant], tuple) else "masked ast differs from the harmless twin's"
            ctx.violation("generated-structure-changed", dict(wit, variant=variant, what=what), mechanism="C13/structure-changed")
            return
    before = len(sent.hits)
    x = observe(im, text, envs)
    t = observe(im, twin, tenvs)
    if "failed" in x:
        if "failed" not in t:
            ctx.violation("construction-failed", dict(wit, error=x["failed"]), mechanism="C13/structure-changed")
        return
    if len(sent.hits) > before:
        ctx.violation("sentinel-invoked", dict(wit, hits=sent.hits[before:before + 3]), mechanism="C13/code-executed")
        return
    extra = normalise(x["callees"]) - skeleton
    if extra:
        ctx.violation("unexpected-callee", dict(wit, extra=sorted(extra)), mechanism="C13/code-executed")
        return
    ctx.count("clean/random-program")


def replay(ctx, kind, w):
    im = impl()
    with Sentinels() as sent:
        payload = w["payload"]
        fvals = [payload, "other", (payload, "y"), payload + "x", "s0"]
        tvals = ["s0", "other", ("s0", "y"), "s0x", "s0"]
        envs = [dict(u=u, f=f) for u in ("u1", 7) for f in fvals]
        tenvs = [dict(u=u, f=f) for u in ("u1", 7) for f in tvals]
        if w.get("position") == "random-program":
            compare_random(ctx, im, w["text"], w["twin"], [], [], payload, sent, set())
        else:
            compare(ctx, im, w["text"], w["twin"], envs, tenvs, payload, w.get("position", "replay"), sent)
