"""C14 - generated Python source is equivalent to the in-memory evaluator.

Translation validation by execution: generate_code(text, expose) for both layouts is exec'd in a
fresh namespace; the function named after the experiment must exist and give, for every input, the
same group or the same error class as ExperimentEvaluator(text).
"""

from __future__ import annotations

from pyabv.gen import corpus
from pyabv.gen.programs import POOL_HOSTILE, POOL_KWPREFIX, POOL_SHAPE, Profile, ProgGen
from pyabv.impl import impl
from pyabv.props.c07 import identifier_templates, program_identifiers, size_shapes
from pyabv.props.common import Inferred, choose_inputs, is_member, ref_parse, same_value, selection, self_check

RULE = (
    "cases = (program, layout, input): generated programs (incl. nesting, chains, tuples with identifiers, hostile string "
    "literals), documented examples, repository test programs, every keyword-prefixed / shape identifier in every "
    "identifier position, size-limit shapes; layouts nested / exposed; inputs guided by the reference router to every "
    "reachable return and the fall-through. For programs without splitters (random choice) only membership and error "
    "class are compared. distinct_nontrivial = distinct (program, layout) with >= 1 conditional."
    ' Added later: wild records (any Python value in any field, values whose str() raises), co-resident evaluators compared with the functions loaded from their own generated text, generate_code run in child interpreters with other hash seeds and its text loaded here, literals beyond the float range.'
)
ASSUMPTIONS = [
    "the evaluator itself is the oracle (its own correctness is C02/C03/C07's business)",
    "black as installed; exec namespace {'__name__': 'gen'}",
    "identifiers that are Python keywords / names used by the generated module are the known finding C14/py-reserved-identifier",
]
QUICK_SHARDS = 4
MIN_NONTRIVIAL = {"quick": 250, "thorough": 12000}
HOSTILE = set(POOL_HOSTILE)


def mech(prog, default, failure="failed"):
    """same classes as C07's classifier (identifier kind x role x failure), under the C14 prefix"""
    from pyabv.props.c07 import mechanism

    m = mechanism(prog, default, failure)
    return m.replace("C07/", "C14/", 1) if m is not default else default


def same_outcome(a, b):
    """the same group - value *and type* (10 is not 10.0, True is not 1) - or the same error class"""
    if a[0] != b[0]:
        return False
    if a[0] == "ok":
        return same_value(a[1], b[1])
    if a[0] == "exc":
        return a[1] == b[1]
    return a == b


class EqAll:
    def __eq__(self, other):
        return True

    def __hash__(self):
        return 1

    def __repr__(self):
        return "EqAll()"


class HashOnlyEq(str):
    """equal to the str it was built from, but hashes differently: tuple membership finds it, set membership does not"""

    def __hash__(self):
        return 12345

    __eq__ = str.__eq__


class TwoArgError(Exception):
    def __init__(self, a, b):
        super().__init__(a, b)


class RaisingStr:
    """str() of this value raises an exception whose class cannot be rebuilt from one message string"""

    def __str__(self):
        raise TwoArgError("cannot print", 42)

    def __repr__(self):
        return "RaisingStr()"


_WILD = []
_RESIDENT = []  # (evaluator, generated function, records, text, layout) of earlier programs, still alive


def wild_values():
    if not _WILD:
        from decimal import Decimal
        from fractions import Fraction

        from pyabv.gen.inputs import exotic_splitter_values

        _WILD.extend(exotic_splitter_values() + [12.0, -3.0, 1e16, 0.0, -0.0, 2.0, 1.0, True, None, float("nan"), float("inf"), {1, 2}, bytearray(b"x"),
                                                 Decimal("2"), Decimal("2.50"), Fraction(5, 2), EqAll(), HashOnlyEq("a"), HashOnlyEq("US"), "a", 1, 2, 3,
                                                 [], {}, (), "", "US", "u\ud83d", "\udc80", RaisingStr()])
    return _WILD


def check_program(ctx, im, text, gp, ninputs, layer, prog=None):
    from pyabv.ref.parse import If

    if prog is None:
        st = ref_parse(text)
        if st[0] != "ok":
            ctx.count("harness/reference-did-not-accept")
            return
        prog = st[1]
    gp = gp or Inferred(prog, text)
    c = im.construct(text)
    if c[0] != "ok":
        ctx.count("evaluator-construction-failed (C07's business)")
        if not (program_identifiers(prog) & HOSTILE):
            ctx.count("evaluator-construction-failed-non-hostile")
        return
    ev = c[1]
    envs, _ = choose_inputs(prog, gp, ctx.rnd, ninputs, pool_factor=3)
    envs = [e for e in envs if selection(prog, e) is not None]
    # "wild" records: any Python value in any field (unhashable containers, integral floats, Decimal, objects with their own
    # __eq__ / __hash__ / __str__).  No reference semantics are needed here: the two artefacts only have to agree
    fields = sorted(gp.kinds)
    for _ in range(max(2, ninputs // 4)):
        if fields:
            envs.append({f: ctx.rnd.choice(wild_values()) for f in fields})
    for expose in (False, True):
        layout = "exposed" if expose else "nested"
        ctx.evaluated()
        if isinstance(prog.cond, If):
            ctx.nontrivial(text, layout)
        try:
            src = im.generate_text(text, expose)
        except Exception as e:  # noqa: BLE001
            ctx.violation("generate-code-raised", dict(text=text, layout=layout, error=[type(e).__name__, str(e)[:200]], layer=layer),
                          mechanism=mech(prog, "C14/generate-code-raised", f"{layout}/generate-code-raised"))
            continue
        ns = {"__name__": "gen"}
        try:
            exec(compile(src, "<generated>", "exec"), ns)
        except Exception as e:  # noqa: BLE001
            ctx.violation("generated-module-does-not-load", dict(text=text, layout=layout, error=[type(e).__name__, str(e)[:200]],
                                                                 generated=src[:1500], layer=layer),
                          mechanism=mech(prog, "C14/module-does-not-load", f"{layout}/module-does-not-load"))
            continue
        fn = ns.get(prog.id)
        if not callable(fn):
            ctx.violation("no-function-named-after-experiment", dict(text=text, layout=layout, names=sorted(k for k in ns if not k.startswith("__"))),
                          mechanism=mech(prog, "C14/no-function", f"{layout}/no-function"))
            continue
        if expose and not callable(ns.get("choose_experiment_variant")):
            ctx.count("exposed-layout-without-module-level-helper")
        # evaluators of earlier programs are still alive (a service hosts many experiments): each must still agree with the
        # function loaded from *its* generated text, whatever has been compiled since
        for rev, rfn, renvs, rtext, rlayout, rprog in _RESIDENT:
            for env in renvs:
                a, b = im.call(rev, env), im.call(rfn, env)
                ctx.evaluated()
                if rprog.splitters or a[0] != "ok":
                    same = same_outcome(a, b)
                else:
                    same = b[0] == "ok" and is_member(rprog, b[1])
                if not same:
                    ctx.violation("generated-source-disagrees-with-evaluator",
                                  dict(text=rtext, layout=rlayout, env=env, evaluator=a, generated=b, layer="co-resident", compiled_since=text[:300]),
                                  mechanism=mech(rprog, "C14/disagrees", f"{rlayout}/disagrees"))
                    _RESIDENT.clear()
                    return
        if expose and envs and not (program_identifiers(prog) & HOSTILE):
            _RESIDENT.append((ev, fn, envs[:4], text, layout, prog))
            del _RESIDENT[:-3]
        for env in envs:
            a = im.call(ev, env)
            b = im.call(fn, env)
            ctx.evaluated()
            if prog.splitters or a[0] != "ok":
                same = same_outcome(a, b)
            else:
                same = b[0] == "ok" and is_member(prog, b[1])
            if not same:
                ctx.violation("generated-source-disagrees-with-evaluator",
                              dict(text=text, layout=layout, env=env, evaluator=a, generated=b, layer=layer),
                              mechanism=mech(prog, "C14/disagrees", f"{layout}/disagrees"))
                break
        else:
            ctx.count(f"{layer}/{layout}/agreed")


ELSEWHERE = [
    'def e1 { salt: "x" splitters: uid, sid, zone, app, Uid return "a" weighted 1, "b" weighted 1, "c" weighted 2 }',
    'def e2 { splitters: b, a, B, _c if plan in ("p", "q") { return 1 weighted 1, 2 weighted 3 } else { return 3 weighted 1, 4 weighted 1 } }',
    'def e3 { splitters: user_id, country if country == "US" and age >= 21 { return "x" weighted 1, "y" weighted 1 } else if age < 21 { return "z" weighted 1 } }',
    'def e4 { salt: "s" splitters: k9, k1, k5, k3, k7, k2 return "g0" weighted 1, "g1" weighted 1 }',
]


def generated_elsewhere(ctx, im):
    """generate_code run in fresh interpreters with other hash seeds; the text is loaded here and compared with evaluators built
    here: nothing about the emitted text may depend on the process that emitted it (iteration order of a set of names ...)"""
    import json
    import os
    import shutil
    import subprocess
    import tempfile

    from pyabv.run import HOME, PYTHON, REPO

    rnd = ctx.rnd
    tmp = tempfile.mkdtemp(prefix="pyabv-c14-")
    try:
        cp = os.path.join(tmp, "corpus.json")
        with open(cp, "w", encoding="ascii") as f:
            json.dump({"programs": ELSEWHERE}, f, ensure_ascii=True)
        evs = [im.construct(t) for t in ELSEWHERE]
        for hs in (["1", "2"] if ctx.quick() else ["1", "2", "3", str(rnd.randrange(4, 2**31)), "random"]):
            out = os.path.join(tmp, f"gen-{hs}.json")
            env = dict(os.environ, PYTHONPATH=f"{HOME}:{os.path.join(REPO, 'src')}", PYTHONHASHSEED=hs)
            try:
                p = subprocess.run([PYTHON, "-B", "-m", "pyabv.gen_child", cp, out], env=env, cwd=HOME, capture_output=True, timeout=300)
            except subprocess.TimeoutExpired:
                ctx.set_inconclusive("C14 generation child: watchdog fired")
                return
            if p.returncode != 0 or not os.path.exists(out):
                ctx.set_inconclusive("C14 generation child failed: " + p.stderr.decode("utf-8", "replace")[-300:])
                return
            with open(out, encoding="ascii") as f:
                rows = json.load(f)["generated"]
            for text, c, row in zip(ELSEWHERE, evs, rows):
                if c[0] != "ok":
                    continue
                prog = ref_parse(text)[1]
                fields = sorted(Inferred(prog, text).kinds)
                for layout in ("nested", "exposed"):
                    if layout not in row:
                        ctx.violation("generate-code-raised", dict(text=text, layout=layout, error=row.get(layout + "_error"), process="hash seed " + hs),
                                      mechanism="C14/generate-code-raised")
                        continue
                    ns = {"__name__": "gen"}
                    try:
                        exec(compile(row[layout], "<generated elsewhere>", "exec"), ns)
                    except Exception as e:  # noqa: BLE001
                        ctx.violation("generated-module-does-not-load", dict(text=text, layout=layout, error=[type(e).__name__, str(e)[:200]]),
                                      mechanism="C14/module-does-not-load")
                        continue
                    fn = ns.get(prog.id)
                    for j in range(40):
                        envd = {f: rnd.choice(["US", "p", "x", 1, 2, 21, 20, 7.5, None, "u%d" % j, j]) for f in fields}
                        a, b = im.call(c[1], envd), im.call(fn, envd)
                        ctx.evaluated()
                        same = same_outcome(a, b)
                        if not same:
                            ctx.violation("generated-source-disagrees-with-evaluator",
                                          dict(text=text, layout=layout, env=envd, evaluator=a, generated=b, layer="generated-elsewhere",
                                               generated_with_hash_seed=hs), mechanism="C14/disagrees")
                            return
                        ctx.nontrivial("elsewhere", hs, text, layout, j)
            ctx.count("generated-elsewhere/children")
    finally:
        shutil.rmtree(tmp, ignore_errors=True)


def run(ctx):
    im = impl()
    rnd = ctx.rnd
    idx = 0
    if ctx.shard == 0 or not ctx.quick():
        generated_elsewhere(ctx, im)
    # return statements whose literals compare equal across statements but differ in type (0 / 0.0 / -0.0 / "0"): the group
    # that comes back has the type that was written in *that* statement
    if ctx.shard == 0 or not ctx.quick():
        for t in ('def tw1 { splitters: u if plan == "trial" { return 0 weighted 1, 10 weighted 1 } else if plan == "x" { return 0.0 weighted 1, 10.0 weighted 1 } '
                  'else { return "0" weighted 1, "10" weighted 1 } }',
                  'def tw2 { splitters: u if plan == "trial" { return 1.0 weighted 1, -0.0 weighted 1, 2 weighted 2 } else { return 1 weighted 1, 0 weighted 1, 2.0 weighted 2 } }',
                  'def tw3 { splitters: u if plan == "trial" { if f == 1 { return 7 weighted 3 } else { return 7.0 weighted 3 } } else { return 7 weighted 3 } }'):
            check_program(ctx, im, t, None, 24, "equal-comparing-literals")
    # a float literal beyond the float range (310 digits) becomes inf; whatever the two artefacts do with it, they do the same
    if ctx.shard == 0:
        big = "1" + "0" * 309 + ".0"
        for t in (f'def inf1 {{ splitters: u if f < {big} {{ return "a" weighted 1, "b" weighted 1 }} else {{ return "c" weighted 1 }} }}',
                  f'def inf2 {{ splitters: u if f in (1, {big}) {{ return "a" weighted 1 }} else {{ return "c" weighted 1, "d" weighted 1 }} }}'):
            check_program(ctx, im, t, None, 8, "beyond-float-range")
    for name, text in list(corpus.DOCUMENTED.items()) + list(corpus.test_programs().items()) + [(f"seed{i}", s) for i, s in enumerate(corpus.SEEDS)]:
        idx += 1
        if ctx.mine(idx):
            check_program(ctx, im, text, None, 25, "documented")
    pools = [("kwprefix", POOL_KWPREFIX), ("shape", POOL_SHAPE), ("hostile", POOL_HOSTILE)]
    for pname, pool in pools:
        for x in pool:
            for pos, text in identifier_templates(x).items():
                idx += 1
                if not ctx.mine(idx):
                    continue
                if ctx.quick() and pname != "hostile" and pos not in ("name", "shared", "everywhere", "tuple-member", "tight"):
                    continue
                if ctx.quick() and pname == "hostile" and pos not in ("name", "splitter", "left-str", "everywhere"):
                    continue
                check_program(ctx, im, text, None, 5, "identifiers-" + pname)
    for name, text in size_shapes(rnd):
        idx += 1
        if name == "splitters-3000":
            continue  # (C07's business; formatting a 3000-parameter signature takes black several seconds)
        if ctx.mine(idx) and (not ctx.quick() or not name.endswith("-60") or name.startswith("chain")):
            check_program(ctx, im, text, None, 15, "size-shapes")
            ctx.seen("size_shapes", name)
    # literal sweep: every hostile string of the literal pool as salt + operand + tuple member + group label at once; the
    # generated text goes through black, which must not touch the contents of string literals
    from pyabv.gen import literals as L

    sweep = [x for x in L.TRICKY_STRINGS if L.expressible(x)] + [L.random_string(rnd, 14) for _ in range(ctx.n(30, 3000))]
    for si, sv in enumerate(sweep):
        idx += 1
        if si < len(L.TRICKY_STRINGS) and not ctx.mine(idx):
            continue
        S = L.render_lit(L.str_lit(sv))
        text = (f'def lit {{ salt: {S} splitters: u if f == {S} {{ return {S} weighted 1, "b" weighted 1 }} else if f in ({S}, "m") '
                f'{{ return "c" weighted 1 }} else {{ return "d" weighted 2, {S} weighted 1 }} }}')
        gp = Inferred(ref_parse(text)[1], text) if ref_parse(text)[0] == "ok" else None
        if gp is None:
            ctx.count("harness/reference-did-not-accept")
            continue
        gp.lits["f"] = [sv, sv + "x", sv.replace("    ", "\t"), sv.replace("\t", "    ")]
        check_program(ctx, im, text, gp, 12, "literal-sweep")
    n = ctx.n(120, 12000)
    profiles = [
        Profile(),
        Profile(max_depth=4, max_arms=3, pred_depth=3, hard_literals=0.7, p_tuple_ident=0.3, p_nested_tuple=0.2),
        Profile(max_depth=2, max_arms=5, pred_depth=2, p_shared=0.8, splitters=(1, 4)),
        Profile(max_depth=3, max_arms=3, pred_depth=2, splitters=(0, 0)),
        Profile(max_depth=4, max_arms=3, pred_depth=1, p_leaf_cond=0.3, p_repeat_return=0.5),
    ]
    for i in range(n):
        gp = ProgGen(rnd, rnd.choice(profiles)).program()
        prog = self_check(ctx, gp)
        if prog is None:
            continue
        check_program(ctx, im, gp.text, gp, 15, "random", prog=prog)
        if i < 1:
            try:
                ctx.sample(dict(text=gp.text, generated_nested=im.generate_text(gp.text, False)[:1200]))
            except Exception:  # noqa: BLE001  (already reported by check_program as generate-code-raised)
                pass


def replay(ctx, kind, w):
    check_program(ctx, impl(), w["text"], None, 40, "replay")
