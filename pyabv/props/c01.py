"""C01 - assignment is a pure, process-independent function of source and inputs.

History single-valuedness checker: a map (source text, canonical inputs) -> result that must
never be assigned two different values - inside one process history (several instances, shuffled
call orders, recompile cycles, interleaved other programs) and across interpreter processes
started with different hash seeds, locales, working directories and flags.  The implementation
is only ever compared with itself.
"""

from __future__ import annotations

import json
import os
import shutil
import subprocess
import sys
import tempfile

from pyabv.gen.inputs import SPLITTER_VALUES, env_key
from pyabv.gen.programs import Profile, ProgGen
from pyabv.impl import Failpoint, impl
from pyabv.props.common import choose_inputs, selection, self_check
from pyabv.ref.parse import returns_of
from pyabv.run import HOME, PYTHON, REPO, jsonable

RULE = (
    "cases = (source text, input record) pairs with >= 1 splitter field; each is evaluated at several points of an "
    "in-process history (2..4 evaluator instances per source, shuffled and reversed call orders, families of values that "
    "compare equal but print differently, recompile to another "
    "text and back, further constructions, calls on other programs in between, two sources sharing one experiment "
    "name) and by child interpreters (PYTHONHASHSEED 0/1/max/random, LANG/LC_ALL C / POSIX / C.UTF-8 / nonexistent, "
    "PYTHONUTF8 0/1, setlocale, cwd / and temp dirs incl. a non-ASCII name, -O, -X dev, TZ; half of the children evaluate "
    "the corpus in reverse order first; 'fake-world' children see a clock shifted by 400 days, another pid / host / user and "
    "another state of the global random generator; the in-process history re-seeds `random` between calls). distinct_nontrivial = "
    "distinct pairs whose routed return has >= 2 positive-weight groups and that were observed by >= 2 instances and "
    ">= 2 processes."
    ' Added later: twelve sibling revisions that weak change detectors confuse, calls that fail through an injected fault (sys.monitoring failpoint inside the repository) followed by ordinary calls (round 9); case-twin splitters, padded and unencodable ids (same error every time), records with a declared field left out, keyword order shuffled per call, copies (copy / deepcopy) of evaluators taken in the middle of recompile cycles, a fake-world child whose clocks run 3600x fast.'
)
ASSUMPTIONS = [
    "only the C, C.UTF-8 and POSIX locales exist in this image; 'another interpreter' means another process of the same "
    "CPython 3.12 build",
    "the working directory never contains files that shadow standard-library modules",
]
QUICK_SHARDS = 2
MIN_NONTRIVIAL = {"quick": 700, "thorough": 25000}


EQUAL_FAMILIES = [(1, 1.0, True), (0, 0.0, -0.0, False), (7, 7.0), (2**53, float(2**53)), (-1, -1.0), (10**22, 1e22)]


def child_envs(quick):
    base = [
        ("hashseed-0", dict(PYTHONHASHSEED="0"), [], None),
        ("hashseed-1", dict(PYTHONHASHSEED="1"), ["--reverse-first"], None),
        ("hashseed-max+fake-world", dict(PYTHONHASHSEED="4294967295", TZ="Pacific/Kiritimati"), ["--fake-world"], None),
        ("hashseed-random-a", dict(PYTHONHASHSEED="random"), [], None),
        ("hashseed-random-b", dict(PYTHONHASHSEED="random"), ["--reverse-first"], None),
        ("locale-C-noutf8", dict(LANG="C", LC_ALL="C", PYTHONUTF8="0", PYTHONCOERCECLOCALE="0", PYTHONHASHSEED="7"), [], None),
        ("cwd-nonascii", dict(PYTHONHASHSEED="11"), ["--reverse-first"], "tmp-nonascii"),
        ("setlocale+dev", dict(LANG="C.UTF-8", LC_ALL="C.UTF-8", PYTHONHASHSEED="123"), ["-X", "dev", "--setlocale"], None),
    ]
    more = [
        ("locale-POSIX", dict(LANG="POSIX", LC_ALL="POSIX", PYTHONUTF8="0", PYTHONCOERCECLOCALE="0"), [], None),
        ("locale-missing", dict(LANG="xx_XX.UTF-8", LC_ALL="xx_XX.UTF-8", PYTHONHASHSEED="99"), ["--setlocale"], None),
        ("utf8-mode", dict(PYTHONUTF8="1", LANG="C", PYTHONHASHSEED="5"), [], None),
        ("cwd-root", dict(PYTHONHASHSEED="random"), [], "/"),
        ("cwd-tmp", dict(PYTHONHASHSEED="random"), [], "tmp"),
        ("optimize", dict(PYTHONHASHSEED="3"), ["-O", "--reverse-first"], None),
        ("optimize2", dict(PYTHONHASHSEED="4"), ["-OO"], None),
        ("tz+fake-world", dict(TZ="Asia/Kolkata", PYTHONHASHSEED="random"), ["--fake-world", "--reverse-first"], None),
        ("no-user-site+isolated-ish", dict(PYTHONNOUSERSITE="1", PYTHONHASHSEED="random"), ["-s"], None),
        ("hashseed-random-c", dict(PYTHONHASHSEED="random"), [], None),
        ("hashseed-2", dict(PYTHONHASHSEED="2"), ["--reverse-first"], None),
        ("lc-ctype-only", dict(LC_CTYPE="C", PYTHONHASHSEED="random", PYTHONUTF8="0", PYTHONCOERCECLOCALE="0"), [], None),
    ]
    return base if quick else base + more


def run_child(name, env_over, pyflags, cwd_kind, corpus_path, outdir):
    env = dict(os.environ)
    for k in ("LANG", "LC_ALL", "LC_CTYPE", "PYTHONUTF8", "PYTHONCOERCECLOCALE", "TZ"):
        env.pop(k, None)
    env.update(env_over)
    env["PYTHONPATH"] = f"{HOME}:{os.path.join(REPO, 'src')}"
    flags = [f for f in pyflags if f not in ("--setlocale", "--reverse-first", "--fake-world")]
    extra = [f for f in ("--setlocale", "--reverse-first", "--fake-world") if f in pyflags]
    out = os.path.join(outdir, name + ".json")
    tmp = None
    if cwd_kind == "tmp":
        tmp = cwd = tempfile.mkdtemp(prefix="pyabv-cwd-")
    elif cwd_kind == "tmp-nonascii":
        tmp = cwd = tempfile.mkdtemp(prefix="pyabv-cwd-é日本-")
    elif cwd_kind:
        cwd = cwd_kind
    else:
        cwd = HOME
    try:
        p = subprocess.run([PYTHON, "-B", *flags, "-m", "pyabv.xproc_child", corpus_path, out, *extra], env=env, cwd=cwd,
                           capture_output=True, timeout=600)
        if p.returncode != 0 or not os.path.exists(out):
            return None, f"child {name} rc={p.returncode}: {p.stderr.decode('utf-8', 'replace')[-600:]}"
        with open(out, encoding="ascii") as f:
            return json.load(f), None
    except subprocess.TimeoutExpired:
        return None, f"child {name} watchdog fired"
    finally:
        if tmp:
            shutil.rmtree(tmp, ignore_errors=True)


def multi_group(prog, sel):
    if sel in (None, "UNROUTABLE"):
        return False
    ret = [r for r in returns_of(prog.cond) if r.ordinal == sel][0]
    return sum(1 for g in ret.groups if g.weight > 0) >= 2


def canon(out):
    return json.dumps(jsonable(out), sort_keys=True, ensure_ascii=True)


def run(ctx):
    im = impl()
    rnd = ctx.rnd
    nprog = ctx.n(120, 6000)
    ninputs = 25 if ctx.quick() else 60
    profiles = [
        Profile(max_depth=2, max_arms=3, pred_depth=2, splitters=(2, 4), p_salt=0.7),
        Profile(max_depth=1, max_arms=2, pred_depth=1, splitters=(1, 2), p_salt=0.5),
        Profile(max_depth=2, max_arms=2, pred_depth=2, splitters=(2, 3), p_shared=0.7),
    ]
    corpus = []
    while len(corpus) < nprog:
        gp = ProgGen(rnd, rnd.choice(profiles)).program(force_conditional=rnd.random() < 0.6)
        prog = self_check(ctx, gp)
        if prog is None or not prog.splitters:
            continue
        envs, _ = choose_inputs(prog, gp, rnd, ninputs, pool_factor=2)
        # splitter-only fields: every listed value type
        for e in envs:
            for s in gp.splitter_only:
                if rnd.random() < 0.5:
                    # (a str with a lone surrogate has no UTF-8 encoding: such a call raises - the same error every time)
                    e[s] = rnd.choice(SPLITTER_VALUES + ["\udc80", "a\ud83d", "\udc00\ud800 x"])
        # families of values that compare equal but print differently (1 / 1.0 / True ...): a cache keyed on equality
        # would make the first spelling seen decide for the others, i.e. the answer would depend on the call history
        if gp.splitter_only and envs:
            s = sorted(gp.splitter_only)[0]
            base = dict(rnd.choice(envs))
            for fam in EQUAL_FAMILIES:
                for v in fam:
                    e = dict(base)
                    e[s] = v
                    envs.append(e)
        # every splitter printing as the empty string: with no (or an empty) salt the hashed key is '' - still a key
        if envs:
            e = dict(envs[0])
            for s in prog.splitters:
                if gp.kinds.get(s) in ("any", "str"):
                    e[s] = ""
            envs.append(e)
        envs = [e for e in envs if selection(prog, e) is not None]
        # records that leave a declared field out: whatever such a call does (today: TypeError), it does so every time, on every
        # evaluator, whatever was passed before
        if envs and len(envs[0]) >= 2:
            for e in rnd.sample(envs, min(3, len(envs))):
                drop = rnd.choice(sorted(e))
                envs.append({k: v for k, v in e.items() if k != drop})
        if envs:
            corpus.append((gp, prog, envs))
    # return statements that repeat a group label (any fold / merge through a set or dict would order them by hash)
    from pyabv.gen.programs import GenProg
    from pyabv.props.common import Inferred, ref_parse

    for rt in ('def twins { salt: "t" splitters: uid, UID, Uid return "a" weighted 1, "b" weighted 1, "c" weighted 1 }',
               'def rep1 { salt: "r" splitters: uid, sid return "control" weighted 2, "variant_a" weighted 1, "variant_b" weighted 1, "control" weighted 1 }',
               'def rep2 { splitters: uid if plan == "p" { return "x" weighted 1, "y" weighted 1, "x" weighted 1, "zz" weighted 1, "y" weighted 2 } '
               'else { return "b" weighted 1, "a" weighted 1, "b" weighted 1 } }'):
        st = ref_parse(rt)
        if st[0] == "ok":
            inf = Inferred(st[1], rt)
            envs = [dict(uid=f"u{j}", sid=j % 5, plan="p" if j % 2 else "q", UID=f"U{j % 7}", Uid=j) for j in range(ninputs)]
            envs = [{k: v for k, v in e.items() if k in inf.kinds} for e in envs]
            corpus.append((inf, st[1], envs))
    # two sources sharing one experiment name, differing in weights (class-level caches keyed by name)
    twin_a = 'def same_name { salt: "t" splitters: uid, sid return "a" weighted 1, "b" weighted 1 }'
    twin_b = 'def same_name { salt: "t" splitters: uid, sid return "a" weighted 1, "b" weighted 9 }'
    # siblings that differ only in white space *inside* a string literal (and so mean different things)
    sib_a = 'def sib { salt: "s 1" splitters: uid, sid return "a" weighted 1, "b" weighted 1, "c" weighted 1 }'
    sib_b = 'def sib { salt: "s  1" splitters: uid, sid return "a" weighted 1, "b" weighted 1, "c" weighted 1 }'
    # ... and revisions a weak change detector cannot tell apart: same bytes in another order (byte sums), the (+1,-2,+1)
    # pattern and swapped weights (Adler-32), same length, and pairs colliding under CRC-32 / digests cut to 32 bits
    # (data/collisions.json, which C11 uses too)
    sib_pairs = [(sib_a, sib_b, ("uid", "sid"))]
    for la, lb in (("aca", "bab"), ("ab", "ba")):
        sib_pairs.append(tuple(f'def sib {{ splitters: uid, sid return "{x}" weighted 1, "x" weighted 1 }}' for x in (la, lb)) + (("uid", "sid"),))
    for wa, wb in (("121", "202"), ("1", "9"), ("10", "01")):
        sib_pairs.append((f'def sib {{ splitters: uid, sid return "a" weighted {wa}, "b" weighted {wb} }}',
                          f'def sib {{ splitters: uid, sid return "a" weighted {wb}, "b" weighted {wa} }}', ("uid", "sid")))
    try:
        import json as _json

        from pyabv.run import HOME as _HOME

        with open(os.path.join(_HOME, "data", "collisions.json")) as _f:
            for _fn, _p in sorted(_json.load(_f).items()):
                if _p["a"] != _p["b"]:
                    sib_pairs.append((_p["a"], _p["b"], ("uid",)))
    except OSError:
        ctx.count("harness/collisions-file-missing")
    ctx.note("sibling_pairs", len(sib_pairs))

    # ---- layer 1: in-process history ----------------------------------------------------------------
    twin_round = [-1]
    fault_round = [0]
    table = {}  # (text, env_key) -> canonical outcome
    seen_by = {}  # (text, env_key) -> set of instance ids

    def record(text, env, out, inst, where):
        key = (text, env_key(env))
        c = canon(out)
        ctx.evaluated()
        seen_by.setdefault(key, set()).add(inst)
        if key in table and table[key] != c:
            ctx.violation("two-results-for-one-input", dict(text=text, env=env, first=table[key], later=c, where=where),
                          mechanism="C01/not-a-function-in-process")
            return False
        table.setdefault(key, c)
        return True

    serial = [0]

    def new_eval(text):
        c = im.construct(text)
        if c[0] != "ok":
            return None
        serial[0] += 1
        return [c[1], text, serial[0]]

    live = []
    for gp, prog, envs in corpus:
        insts = [new_eval(gp.text) for _ in range(rnd.randint(2, 4))]
        if None in insts:
            ctx.count("construct-failed (C07's business)")
            continue
        live.append((gp, prog, envs, insts))
    for li, (gp, prog, envs, insts) in enumerate(live):
        other = live[(li + 1) % len(live)]
        ops = []
        for j, env in enumerate(envs):
            for r in range(3):
                ops.append(("call", rnd.randrange(len(insts)), j))
        rnd.shuffle(ops)
        ops += [("call", i % len(insts), j) for i, j in enumerate(reversed(range(len(envs))))]
        extra = [("copy", None, None)] * 3
        for _ in range(3):
            extra.append(("recompile-away", rnd.randrange(len(insts)), None))
            extra.append(("new", None, None))
            extra.append(("other", None, rnd.randrange(len(other[2]))))
            extra.append(("twin", None, None))
            extra.append(("faulted-call", rnd.randrange(len(insts)), rnd.randrange(len(envs))))
            extra.append(("faulted-call", rnd.randrange(len(insts)), rnd.randrange(len(envs))))
        for e in extra:
            ops.insert(rnd.randrange(len(ops) + 1), e)
        away = set()
        for opn, (op, i, j) in enumerate(ops):
            if opn % 7 == 0:
                import random as _r

                _r.seed(rnd.getrandbits(32))  # assignments with splitters must not consume / depend on the global RNG
            if op == "call":
                ev, text, sid = insts[i]
                env = envs[j] if text == gp.text else None
                if env is not None and rnd.random() < 0.5:
                    items = list(env.items())
                    rnd.shuffle(items)
                    env = dict(items)  # same record, keywords spelled in another order
                if env is None:
                    # instance currently holds the other program: call it with that program's input
                    k = rnd.randrange(len(other[2]))
                    if not record(text, other[2][k], im.call(ev, other[2][k]), sid, "while-recompiled-away"):
                        return
                    continue
                if not record(text, env, im.call(ev, env), sid, "call"):
                    return
            elif op == "recompile-away":
                ev, text, sid = insts[i]
                try:
                    if i in away:
                        ev.recompile(gp.text)
                        insts[i][1] = gp.text
                        away.discard(i)
                    else:
                        ev.recompile(other[0].text)
                        insts[i][1] = other[0].text
                        away.add(i)
                except Exception:  # noqa: BLE001
                    ctx.count("recompile-raised (C11's business)")
            elif op == "faulted-call":
                # a call that fails for a reason of its own (a fault injected at the k-th function start inside the repository,
                # probe P9) must not change what any later call returns
                ev, text, sid = insts[i]
                if text != gp.text:
                    continue
                env = envs[j]
                with Failpoint(1 + fault_round[0] % 4) as fp:
                    out = im.call(ev, env)
                fault_round[0] += 1
                ctx.count("in-process/faulted-calls/" + ("fault-raised" if fp.fired_in else "fault-point-not-reached"))
                if fp.fired_in:
                    ctx.seen("call_failpoints", fp.fired_in)
                elif not record(text, env, out, sid, "call-under-inert-failpoint"):
                    return
                for e2 in (env, envs[(j + 1) % len(envs)]):
                    if not record(text, e2, im.call(ev, e2), sid, "after-faulted-call"):
                        return
            elif op == "new":
                n = new_eval(gp.text)
                if n:
                    insts.append(n)
            elif op == "copy":
                # a copy of an evaluator (copy / deepcopy; pickling is not supported today) is an evaluator of whatever text
                # the original holds at that moment
                import copy as _copy

                k = rnd.choice(sorted(away)) if away and rnd.random() < 0.7 else rnd.randrange(len(insts))
                try:
                    dup = (_copy.deepcopy if rnd.random() < 0.5 else _copy.copy)(insts[k][0])
                except Exception:  # noqa: BLE001
                    ctx.count("copy-not-supported")
                    continue
                serial[0] += 1
                insts.append([dup, insts[k][1], serial[0]])
                if k in away:
                    away.add(len(insts) - 1)
                ctx.count("in-process/copies")
                cur_envs = envs if insts[k][1] == gp.text else other[2]
                for env in rnd.sample(cur_envs, min(4, len(cur_envs))):
                    if not record(insts[k][1], env, im.call(dup, env), serial[0], "copy-of-evaluator"):
                        return
            elif op == "other":
                oev, otext, osid = other[3][0]
                if otext == other[0].text:
                    if not record(otext, other[2][j], im.call(oev, other[2][j]), osid, "interleaved-other-program"):
                        return
            elif op == "twin":
                # one long-lived evaluator taken from sibling to sibling and back; each state compared (through the table)
                # with fresh evaluators of the same text
                twin_round[0] += 1
                ctx.count("in-process/sibling-rounds")
                ctx.seen("sibling_pairs_used", twin_round[0] % len(sib_pairs))
                sib_a, sib_b, sib_fields = sib_pairs[twin_round[0] % len(sib_pairs)]
                sib = new_eval(sib_a)
                for t in (sib_b, sib_a, sib_b):
                    try:
                        sib[0].recompile(t)
                    except Exception:  # noqa: BLE001
                        ctx.count("recompile-raised (C11's business)")
                        break
                    fresh = new_eval(t)
                    for u in ("x", 1, li, "u%d" % twin_round[0], 2.5, "user-7"):
                        env = {k: v for k, v in dict(uid=u, sid="k").items() if k in sib_fields}
                        if not record(t, env, im.call(fresh[0], env), fresh[2], "fresh-sibling"):
                            return
                        if not record(t, env, im.call(sib[0], env), sib[2], "recompiled-to-whitespace-sibling"):
                            return
                for t in (twin_a, twin_b):
                    te = new_eval(t)
                    for u in (1, "x", 2.5):
                        env = dict(uid=u, sid=li)
                        if not record(t, env, im.call(te[0], env), te[2], "same-name-twin"):
                            return
        for i in list(away):
            try:
                insts[i][0].recompile(gp.text)
                insts[i][1] = gp.text
            except Exception:  # noqa: BLE001
                pass
        # after the whole cycle every instance must still agree with the table
        for ev, text, sid in insts:
            if text == gp.text:
                for env in envs:
                    if not record(text, env, im.call(ev, env), sid, "after-recompile-cycle"):
                        return
    ctx.layer("call-failpoints", "observed" if ctx.counters.get("in-process/faulted-calls/fault-raised") else "unreachable",
              faults_raised=ctx.counters.get("in-process/faulted-calls/fault-raised", 0))
    ctx.count("in-process/instances", serial[0])
    ctx.count("in-process/distinct-pairs", len(table))

    # ---- layer 2: cross-process transcripts ----------------------------------------------------------
    outdir = tempfile.mkdtemp(prefix="pyabv-c01-")
    try:
        corpus_path = os.path.join(outdir, "corpus.json")
        with open(corpus_path, "w", encoding="ascii") as f:
            json.dump({"programs": [dict(text=gp.text, inputs=[jsonable(e) for e in envs]) for gp, prog, envs, _ in live]}, f,
                      ensure_ascii=True)
        transcripts = {}
        from concurrent.futures import ThreadPoolExecutor

        envs_list = child_envs(ctx.quick())
        with ThreadPoolExecutor(4 if ctx.quick() else 3) as ex:
            futs = {name: ex.submit(run_child, name, eo, fl, cw, corpus_path, outdir) for name, eo, fl, cw in envs_list}
        for name, fut in futs.items():
            data, err = fut.result()
            if data is None:
                ctx.set_inconclusive(err)
                continue
            transcripts[name] = data
            ctx.seen("child_environments", f"{name}: enc={data['info']['preferred_encoding']} hash('a')={data['info']['hash_of_a']} "
                                           f"flags={data['info']['flags']}")
        ctx.count("cross-process/children", len(transcripts))
        hashes = {d["info"]["hash_of_a"] for d in transcripts.values()}
        ctx.note("distinct_string_hash_seeds_observed", len(hashes))
        if transcripts and len(hashes) < 2:
            ctx.set_inconclusive("all child interpreters ended up with the same string hash seed")
        for pi, (gp, prog, envs, insts) in enumerate(live):
            for name, data in transcripts.items():
                t = data["transcript"][pi]
                if "construct" in t:
                    ctx.violation("construct-differs-across-processes", dict(text=gp.text, child=name, error=t["construct"]),
                                  mechanism="C01/process-dependent")
                    continue
                for rows_name in ("rows", "rows_reversed_second_instance"):
                    for env, row in zip(envs, t[rows_name]):
                        key = (gp.text, env_key(env))
                        ctx.evaluated()
                        if table.get(key) is not None and row != table[key]:
                            ctx.violation("result-differs-across-processes",
                                          dict(text=gp.text, env=env, in_process=table[key], child=name, child_result=row,
                                               child_info=data["info"]), mechanism="C01/process-dependent")
                            break
            for env in envs:
                key = (gp.text, env_key(env))
                if len(seen_by.get(key, ())) >= 2 and len(transcripts) >= 2 and multi_group(prog, selection(prog, env)):
                    ctx.nontrivial(gp.text, key[1])
    finally:
        shutil.rmtree(outdir, ignore_errors=True)
    gp, prog, envs, _ = live[0]
    ctx.sample(dict(text=gp.text, env=envs[0], result=table.get((gp.text, env_key(envs[0])))))


def replay(ctx, kind, w):
    """re-evaluates the witness input in this process and in four child interpreters"""
    im = impl()
    c = im.construct(w["text"])
    if c[0] != "ok" or "env" not in w:
        return
    first = canon(im.call(c[1], w["env"]))
    if canon(im.call(im.construct(w["text"])[1], w["env"])) != first:
        ctx.violation(kind, w, mechanism="C01/not-a-function-in-process")
        return
    outdir = tempfile.mkdtemp(prefix="pyabv-c01-")
    try:
        corpus_path = os.path.join(outdir, "corpus.json")
        with open(corpus_path, "w", encoding="ascii") as f:
            json.dump({"programs": [dict(text=w["text"], inputs=[jsonable(w["env"])])]}, f, ensure_ascii=True)
        for name, eo, fl, cw in child_envs(True)[:5]:
            data, err = run_child(name, eo, fl, cw, corpus_path, outdir)
            if data and data["transcript"][0].get("rows", [first])[0] != first:
                ctx.violation("result-differs-across-processes", dict(w, child=name), mechanism="C01/process-dependent")
                return
    finally:
        shutil.rmtree(outdir, ignore_errors=True)
