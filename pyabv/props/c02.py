"""C02 - compiled routing equals the DSL's if / else-if / else and operator semantics.

Oracle: pyabv.ref.eval.route on the reference parse of the *same text*; every return statement
carries labels unique to it, so one returned value identifies the branch taken.
"""

from __future__ import annotations

import itertools

from pyabv.gen.inputs import env_key, gen_env
from pyabv.gen.programs import Profile, ProgGen, Renderer
from pyabv.impl import impl
from pyabv.props.common import choose_inputs, judge, ref_parse, self_check
from pyabv.ref.parse import And, Cmp, Group, Id, If, Lit, Not, Or, Program, Ret, Tup, returns_of

RULE = (
    "cases = (program text, input record) pairs; exhaustive small scope (8 comparison operators x operand layout x "
    "kind x relation of input to literal; all predicate trees <= 3 leaves over not/and/or x minimal/redundant "
    "parentheses x all truth assignments; all conditional skeletons <= 3 arms x else/no else x one level of "
    "nesting) plus grammar-directed random programs with boundary inputs. distinct_nontrivial = distinct "
    "(program, selected return ordinal or UNROUTABLE) pairs of programs that contain a conditional."
    " Added later: operator matrix with NaN / inf / nearest-double neighbours, not- and not-not-wrapped comparisons, a bare string right of `in`, a literal left of a tuple of fields; Decimal / Fraction inputs; co-resident evaluators (earlier programs' evaluators asked again after each later compile); copy after recompile."
)
ASSUMPTIONS = [
    "reference router (pyabv/ref) is the oracle; every disagreement is triaged by hand before it is believed",
    "inputs are type-compatible by construction; (program, input) pairs on which Python itself raises TypeError in the "
    "reference are dropped and counted",
    "decimal literals that overflow a double and integers beyond CPython's 4300-digit limit are out of domain",
]
QUICK_SHARDS = 2
MIN_NONTRIVIAL = {"quick": 3000, "thorough": 100000}

VIOLATION_KINDS = {"wrong-branch", "wrong-group", "not-a-group", "unexpected-unroutable", "missed-unroutable", "exception"}


def check_case(ctx, im, prog, text, ev, env, layer):
    out = im.call(ev, env)
    verdict, detail = judge(prog, env, out)
    ctx.evaluated()
    if verdict == "skip":
        ctx.count("skipped/" + detail.split(":")[0][:30])
        return None
    if verdict == "ok":
        sel = "UNROUTABLE" if detail == "unroutable" else detail[0]
        if isinstance(prog.cond, If):
            ctx.nontrivial(text, sel)
        ctx.count(f"{layer}/agreed")
        return sel
    ctx.violation(verdict, dict(text=text, env=env, detail=detail, layer=layer), mechanism=f"C02/{verdict}")
    return None


class Residents:
    """evaluators of earlier programs stay alive (as in a service hosting many experiments) and are asked again after later
    programs have been compiled: routing of one evaluator must not depend on what else was compiled in the process"""

    def __init__(self, keep=3):
        self.keep = keep
        self.items = []

    def recheck(self, ctx, im):
        for prog, text, ev, envs in self.items:
            for env in envs:
                check_case(ctx, im, prog, text, ev, env, "co-resident")

    def add(self, prog, text, ev, envs):
        self.items.append((prog, text, ev, list(envs)[:6]))
        del self.items[: -self.keep]


def construct(ctx, im, text, layer):
    st = ref_parse(text)
    if st[0] != "ok":
        ctx.count("harness/reference-did-not-accept:" + st[0])
        ctx.note("harness_rejected_example", dict(text=text, why=st[1]))
        return None, None
    c = im.construct(text)
    if c[0] != "ok":
        ctx.evaluated()
        ctx.violation("construct-failed", dict(text=text, error=c[1:], layer=layer), mechanism="C02/construct-failed")
        return st[1], None
    return st[1], c[1]


# ---------------------------------------------------------------------------------------------
# layer 1a: operator x layout x kind x relation matrix


def _ret(label, o):
    return Ret((Group(Lit(label, label), "1"),), o)


def operator_matrix():
    """yields (cell, Program, [env...])"""
    R = Renderer(None)
    num_lit, str_lit = Lit(18, "18"), Lit("m", "m")
    cases = []
    for op in ["==", "!=", ">", "<", ">=", "<="]:
        for kind, lit, vals in (
            ("num", num_lit, [17, 18, 19, 17.5, 18.5, 18.0, -18, 0, float("nan"), float("inf"), 18.000000000000004, 17.999999999999996]),
            ("str", str_lit, ["l", "m", "n", "", "M", "ma", "lz"]),
            ("float", Lit(1.5, "1.5"), [1.4999999999999998, 1.5, 1.5000000000000002, 1, 2, float("nan"), 1.5000000001, 1.4999999999]),
            ("float2", Lit(0.3, "0.3"), [0.1 + 0.2, 0.3, 0.29999999999999993, 0.30000000001, float("-inf")]),
            ("neg", Lit(-3, "-3"), [-4, -3, -2, 3, -3.0]),
        ):
            for layout in ("field-literal", "literal-field", "field-field", "not-field-literal", "not-not-literal-field"):
                if layout == "field-literal":
                    p = Cmp(Id("x"), op, lit)
                    envs = [dict(x=v) for v in vals]
                elif layout == "not-field-literal":
                    # `not a < b` is not `a >= b` (unordered values), `not a == b` is not always `a != b` for every type
                    p = Not(Cmp(Id("x"), op, lit))
                    envs = [dict(x=v) for v in vals]
                elif layout == "not-not-literal-field":
                    p = Not(Not(Cmp(lit, op, Id("x"))))
                    envs = [dict(x=v) for v in vals]
                elif layout == "literal-field":
                    p = Cmp(lit, op, Id("x"))
                    envs = [dict(x=v) for v in vals]
                else:
                    p = Cmp(Id("x"), op, Id("y"))
                    envs = [dict(x=a, y=b) for a in vals[:5] for b in vals[:5]]
                cases.append(((op, kind, layout), p, envs))
    for op in ["in", "not in"]:
        for kind, tup, vals in (
            ("num", Tup((Lit(1, "1"), Lit(2, "2"), Lit(3, "3"))), [1, 2, 3, 0, 4, 1.0, 2.5, "1", True]),
            ("str", Tup((Lit("US", "US"), Lit("CA", "CA"))), ["US", "CA", "MX", "us", "U", "USCA", ""]),
            ("single", Tup((Lit(7, "7"),)), [7, 8, 7.0, "7"]),
            ("numstr", Tup((Lit("02134", "02134"), Lit("10", "10"))), ["02134", "2134", "10", 10, 2134, 2134.0]),
            ("nested", Tup((Tup((Lit(1, "1"), Lit(2, "2"))), Tup((Lit(3, "3"), Lit(4, "4"))))),
             [(1, 2), (3, 4), (2, 1), (1,), 1, (1, 2, 3)]),
            ("with-ident", Tup((Id("y"), Lit("b", "b"))), None),
            # a bare string on the right of `in` is Python's substring test; (s) would be a one-member tuple
            ("bare-string", Lit("abc", "abc"), ["abc", "a", "bc", "", "ac", "abcd", "b"]),
            ("bare-string-field", Id("y"), None),
            ("literal-in-tuple-of-fields", Tup((Id("y"), Id("z"))), None),
        ):
            if kind == "with-ident":
                envs = [dict(x=a, y=b) for a in ["a", "b", "c"] for b in ["a", "c"]]
            elif kind == "bare-string-field":
                envs = [dict(x=a, y=b) for a in ["a", "ab", "", "c"] for b in ["abc", "", "ab"]]
            elif kind == "literal-in-tuple-of-fields":
                envs = [dict(y=a, z=b) for a in ["admin", "user", ""] for b in ["admin", "ops"]]
                cases.append(((op, kind, "literal-tuple"), Cmp(Lit("admin", "admin"), op, tup), envs))
                cases.append(((op, kind, "tuple-tuple"), Cmp(Tup((Id("y"), Id("z"))), "==" if op == "in" else "!=", Tup((Lit("admin", "admin"), Lit("ops", "ops")))), envs))
                continue
            else:
                envs = [dict(x=v) for v in vals]
            cases.append(((op, kind, "field-tuple"), Cmp(Id("x"), op, tup), envs))
        # literal in tuple-valued field, field in tuple-valued field
        cases.append(((op, "num", "literal-tuplefield"), Cmp(Lit(5, "5"), op, Id("T")),
                      [dict(T=t) for t in [(5,), (1, 2), (), (5.0, 6), ("5",)]]))
        cases.append(((op, "str", "field-tuplefield"), Cmp(Id("x"), op, Id("T")),
                      [dict(x=a, T=t) for a in ["a", "b"] for t in [("a",), ("b", "c"), ()]]))
    for cell, p, envs in cases:
        prog = Program("e", None, None, If(((p, _ret("T", 0)),), _ret("F", 1)), 2, set())
        yield cell, R.program(prog), envs


# layer 1b: predicate trees ------------------------------------------------------------------


def _trees(leaves):
    """all binary and/or trees over the ordered leaf list, with optional `not` on every node"""
    if len(leaves) == 1:
        base = [leaves[0]]
    else:
        base = []
        for cut in range(1, len(leaves)):
            for a in _trees(leaves[:cut]):
                for b in _trees(leaves[cut:]):
                    base.append(And(a, b))
                    base.append(Or(a, b))
    out = []
    for t in base:
        out.append(t)
        out.append(Not(t))
    return out


def predicate_trees():
    leaves = [Cmp(Id(n), "==", Lit(1, "1")) for n in "abc"]
    for n in (1, 2, 3):
        for t in _trees(leaves[:n]):
            yield n, t


# layer 1c: conditional skeletons -------------------------------------------------------------


def skeletons():
    """conditional skeletons with <= 3 arms, else / no else, one level of nesting in any arm.
    Every predicate tests a distinct field (`p<i> == 1`), so every arm and every fall-through is
    reachable and all truth assignments are enumerated."""
    counter = itertools.count()

    def fresh_pred(names):
        n = f"p{len(names)}"
        names.append(n)
        return Cmp(Id(n), "==", Lit(1, "1"))

    def bodies(names, o):
        # 0: plain return, 1: nested if without else, 2: nested if with else, 3: nested if / else if
        yield 0
        yield 1
        yield 2
        yield 3

    def build(narms, body_choice, else_choice):
        names, o = [], [0]

        def ret():
            r = _ret(f"r{o[0]}", o[0])
            o[0] += 1
            return r

        def body(ch):
            if ch == 0:
                return ret()
            if ch == 1:
                return If(((fresh_pred(names), ret()),), None)
            if ch == 2:
                return If(((fresh_pred(names), ret()),), ret())
            return If(((fresh_pred(names), ret()), (fresh_pred(names), ret())), None)

        arms = []
        for i in range(narms):
            p = fresh_pred(names)
            arms.append((p, body(body_choice[i])))
        else_ = None if else_choice is None else body(else_choice)
        return Program("sk", None, None, If(tuple(arms), else_), o[0], set(names)), names

    for narms in (1, 2, 3):
        for bc in itertools.product(range(4), repeat=narms):
            for ec in (None, 0, 1, 2, 3):
                next(counter)
                yield build(narms, bc, ec)


def run(ctx):
    im = impl()
    rnd = ctx.rnd
    idx = 0
    # ---- 1a
    cells = set()
    for cell, text, envs in operator_matrix():
        idx += 1
        if not ctx.mine(idx):
            continue
        prog, ev = construct(ctx, im, text, "matrix")
        if ev is None:
            continue
        for env in envs:
            sel = check_case(ctx, im, prog, text, ev, env, "matrix")
            if sel is not None:
                cells.add(cell + (sel,))
                ctx.seen("operator_cells", "|".join(map(str, cell)) + "->" + ("T" if sel == 0 else "F"))
    # ---- 1b
    for style in ("minimal", "redundant"):
        for n, tree in predicate_trees():
            idx += 1
            if not ctx.mine(idx):
                continue
            R = Renderer(None, 0.0) if style == "minimal" else _AlwaysParens()
            prog0 = Program("t", None, None, If(((tree, _ret("T", 0)),), _ret("F", 1)), 2, set())
            text = R.program(prog0)
            prog, ev = construct(ctx, im, text, "trees")
            if ev is None:
                continue
            if prog.cond != prog0.cond:
                ctx.count("harness/render-parse-roundtrip-mismatch")
                continue
            for bits in itertools.product((0, 1), repeat=3):
                env = dict(zip("abc", bits))
                check_case(ctx, im, prog, text, ev, env, "trees")
            ctx.count("trees/programs")
    # ---- 1c
    res = Residents()
    for prog0, names in skeletons():
        idx += 1
        if not ctx.mine(idx):
            continue
        text = Renderer(rnd, 0.1).program(prog0)
        prog, ev = construct(ctx, im, text, "skeletons")
        if ev is None:
            continue
        reached = set()
        res.recheck(ctx, im)  # the earlier skeletons use the same field names
        all_envs = [dict(zip(names, bits)) for bits in itertools.product((0, 1), repeat=len(names))]
        res.add(prog, text, ev, rnd.sample(all_envs, min(6, len(all_envs))))
        for env in all_envs:
            sel = check_case(ctx, im, prog, text, ev, env, "skeletons")
            reached.add(sel)
        ctx.count("skeletons/programs")
        want = set(range(prog.n_returns))
        if not want <= reached:
            ctx.count("skeletons/returns-not-reached", len(want - reached))
    ctx.sample(dict(layer="skeleton", text=text))
    # ---- 2 random large scope
    nprog = ctx.n(1500, 150000)
    ninputs = 25 if ctx.quick() else 40
    profiles = [
        Profile(max_depth=2, max_arms=3, pred_depth=2),
        Profile(max_depth=2, max_arms=3, pred_depth=3, hard_literals=0.5),
        Profile(max_depth=3, max_arms=3, pred_depth=2, p_leaf_cond=0.5),
        Profile(max_depth=1, max_arms=8, pred_depth=2, p_else=0.3),
        Profile(max_depth=6, max_arms=2, pred_depth=1, p_leaf_cond=0.45),
        Profile(max_depth=1, max_arms=2, pred_depth=5),
        Profile(max_depth=3, max_arms=4, pred_depth=2, p_leaf_cond=0.2, p_else=0.5, p_const_pred=0.15),
    ]
    if not ctx.quick():
        profiles.append(Profile(max_depth=12, max_arms=2, pred_depth=1, p_leaf_cond=0.45, p_else=0.5))
    covered = total_returns = 0
    for i in range(nprog):
        g = ProgGen(rnd, rnd.choice(profiles))
        gp = g.program(force_conditional=True)
        prog = self_check(ctx, gp)
        if prog is None:
            continue
        c = im.construct(gp.text)
        ctx.count("random/programs")
        if c[0] != "ok":
            ctx.evaluated()
            ctx.violation("construct-failed", dict(text=gp.text, error=c[1:], layer="random"),
                          mechanism="C02/construct-failed")
            continue
        ev = c[1]
        reached = set()
        envs, _ = choose_inputs(prog, gp, rnd, ninputs)
        res.recheck(ctx, im)
        res.add(prog, gp.text, ev, envs)
        if i % 8 == 0 and res.items:
            # an evaluator that held the previous program, was recompiled to this one and then copied routes like this one
            import copy as _copy

            try:
                moved = im.construct(res.items[0][1])[1]
                moved.recompile(gp.text)
                dup = (_copy.copy if i % 16 else _copy.deepcopy)(moved)
                for env in envs[:6]:
                    check_case(ctx, im, prog, gp.text, dup, env, "copy-after-recompile")
            except Exception:  # noqa: BLE001
                ctx.count("copy-after-recompile/not-possible")
        for env in envs:
            sel = check_case(ctx, im, prog, gp.text, ev, env, "random")
            if sel is not None:
                reached.add(sel)
        for f in gp.features:
            ctx.seen("features", f)
        total_returns += prog.n_returns
        covered += len([r for r in reached if r != "UNROUTABLE"])
        if "UNROUTABLE" in reached:
            ctx.count("random/programs-with-unroutable-observed")
        if i < 2:
            ctx.sample(dict(layer="random", text=gp.text, env=env))
    ctx.count("random/return-statements", total_returns)
    ctx.count("random/return-statements-reached", covered)


class _AlwaysParens(Renderer):
    """every predicate node wrapped in (redundant) parentheses"""

    def __init__(self):
        super().__init__(None, 0.0)

    def pred(self, p, parent=None, side=None):
        if isinstance(p, Cmp):
            s = f"{self.term(p.left)} {p.op} {self.term(p.right)}"
        elif isinstance(p, Not):
            s = "not " + self.pred(p.p, "not")
        elif isinstance(p, And):
            s = self.pred(p.a) + " and " + self.pred(p.b)
        else:
            s = self.pred(p.a) + " or " + self.pred(p.b)
        return "((" + s + "))"


def replay(ctx, kind, w):
    im = impl()
    st = ref_parse(w["text"])
    if st[0] != "ok":
        return
    c = im.construct(w["text"])
    if c[0] != "ok":
        ctx.violation("construct-failed", dict(text=w["text"], error=c[1:]), mechanism="C02/construct-failed")
        return
    if "env" in w:
        check_case(ctx, im, st[1], w["text"], c[1], w["env"], w.get("layer", "replay"))
