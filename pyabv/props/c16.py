"""C16 - the choice function honours its random.choices-style contract.

icontract contracts on the real deterministic_choice (membership by identity, arguments
unchanged in value and element identity) evaluated on every call of the workload, plus a driver
that calls related argument forms and compares them, the documented error combinations, and the
random branch (input_id=None).
"""

from __future__ import annotations

import copy
import math
import random as _random
from fractions import Fraction
from itertools import accumulate

from pyabv import stats
from pyabv.gen import golden
from pyabv.gen.weights import frac, random_vector, to_number
from pyabv.impl import add_deps_path, impl
from pyabv.ref import bucket

RULE = (
    "cases = call configurations of deterministic_choice: ids (random, golden boundary ids) x populations (list / tuple, "
    "mixed values incl. unhashable members and duplicates, length 1..64) x weight vectors (as C03) in the forms weights / "
    "cum_weights / none; related-call comparisons (weights vs running totals; no weights vs [1]*n, [7]*n, [1000]*n); "
    "malformed combinations (both kinds, wrong length shorter / longer / empty, total 0, negative, inf, nan); random "
    "branch 10^4 draws per configuration; aliasing histories (the same list objects re-used across calls and edited in place "
    "between them, each call compared with the same call on fresh copies). Contracts run on every call. distinct_nontrivial = distinct configurations "
    "with n >= 2 and a zero weight, a cum_weights form, a malformed combination or a golden boundary id."
    ' Added later: shares rescaled to 1e300 / 2^900, subnormal totals (a member of positive weight, no IndexError), double faults judged by what random.choices raises, malformed arguments in the id-less branch, padded ids, pair-shaped populations, every eighth configuration under a 3-digit decimal context.'
)
ASSUMPTIONS = [
    "icontract 2.7.3 (installed offline into /verif/.deps) evaluates pre/postconditions and snapshots in the calling thread",
    "the random branch is statistical: chi-square at 1e-9, random.seed(VERIF_SEED + shard) for replay",
]
QUICK_SHARDS = 4
MIN_NONTRIVIAL = {"quick": 3000, "thorough": 150000}
LOG_ALPHA = math.log(1e-9)


class ContractBroken(Exception):
    pass


COUNTS = {"post_member": 0, "post_unchanged": 0}


def build_contracted(real):
    add_deps_path()
    import icontract

    def snap_population(population):
        inner = [copy.deepcopy(x) if isinstance(x, (list, dict, set, bytearray)) else None for x in population]
        return (type(population), list(population), [id(x) for x in population], inner)

    def snap_weights(weights):
        return None if weights is None else (type(weights), list(weights))

    def snap_cum(cum_weights):
        return None if cum_weights is None else (type(cum_weights), list(cum_weights))

    def result_is_member(population, result):
        COUNTS["post_member"] += 1
        return any(result is x for x in population)

    def arguments_unchanged(population, weights, cum_weights, OLD):
        COUNTS["post_unchanged"] += 1
        t, items, ids, deep = OLD.pop
        if type(population) is not t or len(population) != len(items):
            return False
        if any(a is not b for a, b in zip(population, items)) or [id(x) for x in population] != ids:
            return False
        if any(d is not None and x != d for x, d in zip(population, deep)):
            return False  # a mutable member was changed in place
        for cur, old in ((weights, OLD.w), (cum_weights, OLD.cw)):
            if (cur is None) != (old is None):
                return False
            if cur is not None and (type(cur) is not old[0] or repr(list(cur)) != repr(old[1])):
                return False
        return True

    f = icontract.ensure(result_is_member, error=lambda: ContractBroken("result is not an element of the population"))(real)
    f = icontract.ensure(arguments_unchanged, error=lambda: ContractBroken("an argument was modified"))(f)
    f = icontract.snapshot(snap_cum, name="cw")(f)
    f = icontract.snapshot(snap_weights, name="w")(f)
    f = icontract.snapshot(snap_population, name="pop")(f)
    return f


MIXED = [0, 1, -1, 2.5, "a", "b", "", None, True, False, (1, 2), [1, 2], {"k": 1}, {1, 2}, b"x", float("nan"), 10**30, "é", object(), len]


def random_population(rnd, n):
    r = rnd.random()
    if r < 0.05:
        # the members happen to look like (item, weight) pairs, as in list(variants.items()): they are members all the same
        return [(rnd.choice(["control", "treatment", None, "c%d" % j]), rnd.choice([1, 3, 2.5, 0, 10])) for j in range(n)]
    if r < 0.08:
        return [(j, str(j)) for j in range(n)]
    if r < 0.1:
        return range(n)
    pop = [rnd.choice(MIXED) if rnd.random() < 0.7 else f"item{j}" for j in range(n)]
    if n > 2 and rnd.random() < 0.3:
        pop[rnd.randrange(n)] = pop[0]  # duplicate (same object)
    pop = [copy.copy(x) if isinstance(x, (list, dict, set)) else x for x in pop]
    return tuple(pop) if rnd.random() < 0.35 else pop


def outcome(fn, *a, **k):
    try:
        return ("ok", fn(*a, **k))
    except ContractBroken as e:
        return ("contract", str(e))
    except Exception as e:  # noqa: BLE001
        return ("exc", type(e).__name__, str(e)[:80])


def same_result(a, b):
    if a[0] != b[0]:
        return False
    if a[0] == "ok":
        return a[1] is b[1]
    return a[1] == b[1]


def run(ctx):
    im = impl()
    rnd = ctx.rnd
    real = im.binning.deterministic_choice
    dc = build_contracted(real)
    gold = golden.load()
    gold_ids = [ids[0] for ids in gold.values()]
    nconf = ctx.n(15000, 1500000)
    for ci in range(nconf):
        vec = random_vector(rnd)
        n = len(vec)
        w = [to_number(t) for t in vec]
        scale = None
        if rnd.random() < 0.06 and all(abs(x) <= 10**6 for x in w):
            # the same shares at the top of the float range (totals up to ~1e307 are finite, and so is every product a
            # straightforward implementation forms: u * total < total)
            scale = rnd.choice([10**300, 1e300, 10**40, 2.0**900])
            w = [x * scale for x in w]
        pop = random_population(rnd, n)
        use_gold = rnd.random() < 0.3
        uid = rnd.choice(gold_ids) if use_gold else rnd.choice(["u%d" % rnd.randrange(10**9), "", "é", "x" * 100, str(rnd.random()), " u%d" % rnd.randrange(99), "%d\n" % rnd.randrange(99),
                                                                   " ", "\tid ", "a b"])
        special = n >= 2 and (use_gold or any(x == 0 for x in w))
        conf = dict(input_id=uid, population_type=type(pop).__name__, n=n, weights=vec, scale=repr(scale))

        def bad(kind, mech, **more):
            ctx.violation(kind, dict(conf, **more), mechanism=mech)

        # --- weights form (contracts run inside); every eighth configuration under a 3-digit decimal context of the host
        if ci % 8 == 7:
            import decimal

            hostctx = decimal.localcontext()
            hc = hostctx.__enter__()
            hc.prec, hc.rounding = 3, decimal.ROUND_UP
        else:
            hostctx = None
        try:
            r_w = outcome(dc, uid, pop, list(w))
            r_w2 = outcome(dc, uid, pop, cum_weights=list(accumulate(w)))
        finally:
            if hostctx is not None:
                hostctx.__exit__(None, None, None)
        if hostctx is not None and r_w[0] == "ok" and not same_result(r_w, r_w2):
            bad("weights-and-running-totals-differ", "C16/cum-weights-not-equivalent", host="decimal context of 3 digits")
            continue
        ctx.evaluated()
        if r_w[0] == "contract":
            bad("contract-broken", "C16/" + ("not-a-member" if "element" in r_w[1] else "argument-modified"), detail=r_w[1], form="weights")
            continue
        if r_w[0] != "ok":
            bad("valid-call-raised", "C16/valid-call-raised", got=r_w, form="weights")
            continue
        # the selected element against the exact partition (same oracle as C03, on the public function)
        k = bucket.position_of_key(uid)
        part = bucket.Partition([frac(t) * (Fraction(scale) if scale else 1) for t in vec])
        idxs = [i for i, x in enumerate(pop) if x is r_w[1]]
        if not any(i in part.allowed(k) for i in idxs):
            bad("selected-outside-partition", "C16/wrong-element", k=k, got_indices=idxs, allowed=sorted(part.allowed(k)))
            continue
        # --- cum_weights form
        cw = list(accumulate(w))
        r_c = outcome(dc, uid, pop, cum_weights=cw)
        ctx.evaluated()
        if n >= 2:
            ctx.nontrivial("cum", uid, repr(pop)[:200], tuple(vec))
        if r_c[0] == "contract":
            bad("contract-broken", "C16/argument-modified", detail=r_c[1], form="cum_weights")
            continue
        if not same_result(r_w, r_c):
            bad("weights-and-running-totals-differ", "C16/cum-weights-not-equivalent", weights_result=repr(r_w)[:100], cum_result=repr(r_c)[:100])
            continue
        # the same running totals in other spellings: tuple, whole values as int, everything as float
        def exactly_float(c):
            try:
                return float(c) == c
            except OverflowError:
                return False

        spellings = [("tuple", tuple(cw)), ("whole-as-int", [int(c) if isinstance(c, float) and c.is_integer() else c for c in cw])]
        if all(exactly_float(c) for c in cw):
            # (a whole number beyond 2^53 is in general not a float: writing it as one would be another total, not another
            # spelling of the same total)
            spellings.append(("all-float", [float(c) for c in cw]))
        for vname, cwv in spellings:
            r_v = outcome(dc, uid, pop, cum_weights=cwv)
            ctx.evaluated()
            if r_v[0] == "contract":
                bad("contract-broken", "C16/argument-modified", detail=r_v[1], form="cum_weights-" + vname)
                break
            if not same_result(r_w, r_v):
                bad("weights-and-running-totals-differ", "C16/cum-weights-not-equivalent", cum_form=vname, cum_weights=repr(cwv)[:120],
                    weights_result=repr(r_w)[:100], cum_result=repr(r_v)[:100])
                break
        else:
            ctx.count("cum-spellings/ok")
        if ctx.nviolations and ctx.violations and ctx.violations[-1]["witness"].get("input_id") == uid:
            continue
        # a negative entry (total still positive) is not among the documented errors: whatever is selected, the two forms
        # agree, the result is an element and the caller's lists are left alone
        if n >= 3 and ci % 5 == 0:
            wn = list(w)
            j = rnd.randrange(1, n)
            wn[j] = -abs(wn[j] or 1) / 2
            if sum(wn) > 0:
                cwn = list(accumulate(wn))
                keep = list(cwn)
                r_a = outcome(dc, uid, pop, list(wn))
                r_b = outcome(dc, uid, pop, cum_weights=cwn)
                ctx.evaluated(2)
                ctx.nontrivial("negative-entry", uid, tuple(vec), j)
                if "contract" in (r_a[0], r_b[0]) or repr(cwn) != repr(keep):
                    bad("contract-broken", "C16/argument-modified", detail="caller's running totals were edited in place",
                        cum_before=repr(keep)[:120], cum_after=repr(cwn)[:120], form="cum_weights-with-dip")
                    continue
                if r_a[0] == "ok" and not same_result(r_a, r_b):
                    bad("weights-and-running-totals-differ", "C16/cum-weights-not-equivalent", cum_form="with-negative-entry",
                        weights=repr(wn)[:120])
                    continue
                ctx.count("negative-entry/ok")
        if special:
            ctx.nontrivial("special", uid, repr(pop)[:200], tuple(vec))
        # --- no weights vs equal integer weights
        r_n = outcome(dc, uid, pop)
        ctx.evaluated()
        if r_n[0] == "contract":
            bad("contract-broken", "C16/argument-modified", detail=r_n[1], form="none")
            continue
        for c in (1, 7, 1000):
            r_e = outcome(dc, uid, pop, [c] * n)
            ctx.evaluated()
            if not same_result(r_n, r_e):
                bad("no-weights-differs-from-equal-weights", "C16/no-weights-not-equal-weights", equal_weight=c,
                    none_result=repr(r_n)[:100], equal_result=repr(r_e)[:100])
                break
        else:
            # --- malformed combinations (arguments must stay untouched there as well)
            malformed = [
                ("both-kinds", dict(weights=list(w), cum_weights=cw), "TypeError"),
                ("weights-shorter", dict(weights=list(w)[:-1]), "ValueError"),
                ("weights-longer", dict(weights=list(w) + [1]), "ValueError"),
                ("cum-shorter", dict(cum_weights=cw[:-1]), "ValueError"),
                ("cum-longer", dict(cum_weights=cw + [cw[-1] + 1]), "ValueError"),
                ("total-zero", dict(weights=[0] * n), "ValueError"),
                ("total-zero-float", dict(weights=[0.0] * n), "ValueError"),
                ("total-negative", dict(weights=[-1] + [0] * (n - 1)), "ValueError"),
                ("total-inf", dict(weights=[float("inf")] + [1] * (n - 1)), "ValueError"),
                ("total-nan", dict(weights=[float("nan")] + [1] * (n - 1)), "ValueError"),
                ("cum-total-inf", dict(cum_weights=list(range(1, n)) + [float("inf")]), "ValueError"),
                ("cum-longer-leading-zero", dict(cum_weights=[0] + cw), "ValueError"),
                ("cum-longer-trailing-repeat", dict(cum_weights=cw + [cw[-1]]), "ValueError"),
                ("weights-longer-leading-zero", dict(weights=[0] + list(w)), "ValueError"),
                ("weights-longer-trailing-zero", dict(weights=list(w) + [0]), "ValueError"),
            ]
            if n >= 1:
                malformed.append(("weights-empty", dict(weights=[]), "ValueError"))
            # two faults at once: the error is the one random.choices itself reports for these arguments
            for dname, dk in (("both-kinds+weights-short", dict(weights=list(w)[:-1], cum_weights=cw)),
                              ("both-kinds+cum-long", dict(weights=list(w), cum_weights=cw + [cw[-1] + 1])),
                              ("both-kinds+both-short", dict(weights=list(w)[:-1], cum_weights=cw[:-1])),
                              ("both-kinds+total-zero", dict(weights=[0] * n, cum_weights=[0] * n)),
                              ("cum-longer+total-inf", dict(cum_weights=cw + [float("inf")]))):
                try:
                    _random.choices(list(pop), k=1, **dk)
                    continue
                except Exception as e:  # noqa: BLE001
                    malformed.append((dname, dk, type(e).__name__))
            name, kwargs, want = malformed[ci % len(malformed)]
            if name in ("weights-shorter", "cum-shorter") and n == 1:
                name, kwargs, want = malformed[0]
            before = (repr(pop), {kk: repr(v) for kk, v in kwargs.items()})
            r_m = outcome(real, uid, pop, **kwargs)
            ctx.evaluated()
            ctx.nontrivial("malformed", name, uid, n)
            if r_m[0] != "exc" or r_m[1] != want:
                bad("documented-error-not-raised", "C16/documented-error-not-raised", malformed=name, expected=want, got=repr(r_m)[:120])
                continue
            if before != (repr(pop), {kk: repr(v) for kk, v in kwargs.items()}):
                bad("argument-modified-on-error-path", "C16/argument-modified", malformed=name)
                continue
            ctx.count("malformed/" + name)
            ctx.count("configurations/ok")
    # --- the bottom of the float range: totals of a few units of 2^-1074.  The products u * total are rounded to whole units
    # there, so no particular element is demanded - only that the call still ends with a member of positive weight, the same
    # one for weights and running totals, and with the malformed-argument errors where they are due
    tiny = 5e-324
    for ti, (tpop, tw) in enumerate([(["only"], [tiny]), (["a", "b"], [tiny, tiny]), (["a", "b", "c"], [tiny, 0, 2 * tiny]),
                                     (["a", "b", "c", "d"], [0, 3 * tiny, 0, tiny]), (list(range(8)), [tiny] * 8)]):
        if not ctx.mine(ti):
            continue
        for j in range(200):
            uid = "t%d" % j if j % 3 else rnd.choice(gold_ids)
            r_a = outcome(real, uid, tpop, list(tw))
            r_b = outcome(real, uid, tpop, cum_weights=list(accumulate(tw)))
            ctx.evaluated(2)
            ctx.nontrivial("subnormal", ti, uid)
            okk = r_a[0] == "ok" and any(x is r_a[1] or x == r_a[1] for x, wgt in zip(tpop, tw) if wgt > 0)
            if not okk or not same_result(r_a, r_b):
                ctx.violation("subnormal-total", dict(input_id=uid, population=tpop, weights=[repr(x) for x in tw], weights_result=repr(r_a)[:100],
                                                      cum_result=repr(r_b)[:100]), mechanism="C16/valid-call-raised" if r_a[0] != "ok" else "C16/wrong-element")
                break
        else:
            ctx.count("subnormal-totals/ok")
    # --- aliasing histories: the caller re-uses (and edits in place) the very objects it passed before ---------------
    # Every call must be judged on the *current* contents of its arguments: the result has to equal the result of the
    # same call made with fresh copies.
    nhist = ctx.n(300, 100000)
    for hi in range(nhist):
        n = rnd.randint(1, 8)
        w = [rnd.choice([0, 1, 2, 3, 0.5, 10]) for _ in range(n)]
        if not any(w):
            w[rnd.randrange(n)] = 1
        pop = [f"e{j}" for j in range(n)]
        cw = list(accumulate(w))
        uid = rnd.choice(gold_ids) if rnd.random() < 0.3 else "h%d" % rnd.randrange(10**6)
        steps = []
        for step in range(rnd.randint(3, 8)):
            op = rnd.choice(["edit-weight", "edit-weight", "swap-weights", "edit-population", "edit-cum", "resize", "none"])
            if op == "edit-weight":
                w[rnd.randrange(len(w))] = rnd.choice([0, 1, 5, 0.25, 100])
            elif op == "swap-weights" and len(w) > 1:
                i, j = rnd.sample(range(len(w)), 2)
                w[i], w[j] = w[j], w[i]
            elif op == "edit-population":
                pop[rnd.randrange(len(pop))] = f"new{hi}_{step}"
            elif op == "edit-cum":
                k = rnd.randrange(len(cw))
                for t in range(k, len(cw)):
                    cw[t] += 1
            elif op == "resize":
                w.append(1)
                pop.append(f"x{step}")
                cw.append(cw[-1] + 1)
            steps.append(op)
            form = rnd.choice(["weights", "weights", "cum", "none"])
            if form == "weights":
                got = outcome(real, uid, pop, w)
                want = outcome(real, uid, list(pop), list(w))
            elif form == "cum":
                got = outcome(real, uid, pop, cum_weights=cw)
                want = outcome(real, uid, list(pop), cum_weights=list(cw))
            else:
                got = outcome(real, uid, pop)
                want = outcome(real, uid, list(pop))
            ctx.evaluated()
            ctx.nontrivial("alias", hi, step)
            same = (got[0] == want[0]) and (got[1] == want[1])
            if not same:
                ctx.violation("stale-result-for-reused-argument-object", dict(input_id=uid, steps=steps, form=form, weights_now=repr(w),
                                                                             got=repr(got)[:100], with_fresh_copies=repr(want)[:100]),
                              mechanism="C16/depends-on-argument-identity")
                break
        else:
            ctx.count("aliasing-histories/ok")
    ctx.count("contract-evaluations/membership", COUNTS["post_member"])
    ctx.count("contract-evaluations/arguments-unchanged", COUNTS["post_unchanged"])
    if COUNTS["post_member"] == 0:
        ctx.set_inconclusive("contracts were never evaluated")
    ctx.layer("icontract-postconditions", "observed" if COUNTS["post_member"] else "unreachable", evaluations=COUNTS["post_member"])

    # --- random branch ----------------------------------------------------------------------------
    _random.seed(ctx.base_seed * 1000 + ctx.shard)
    nrand = ctx.n(24, 1200)
    draws = 10000
    for ri in range(nrand):
        vec = random_vector(rnd, 12)
        n = len(vec)
        w = [to_number(t) for t in vec]
        pop = [f"e{j}" for j in range(n)]
        form = rnd.choice(["weights", "cum", "none"])
        counts = {p: 0 for p in pop}
        okk = True
        for _ in range(draws):
            if form == "weights":
                r = outcome(dc, None, pop, list(w))
            elif form == "cum":
                r = outcome(dc, None, pop, cum_weights=list(accumulate(w)))
            else:
                r = outcome(dc, None, pop)
            if r[0] != "ok" or r[1] not in counts:
                ctx.violation("random-branch-failed", dict(weights=vec, form=form, got=repr(r)[:120]), mechanism="C16/random-branch")
                okk = False
                break
            counts[r[1]] += 1
        ctx.evaluated(draws)
        if not okk:
            continue
        ws = [frac(t) for t in vec] if form != "none" else [frac("1")] * n
        W = sum(ws)
        expected = [float(x / W) * draws for x in ws]
        res, zero_hits = stats.gof([counts[p] for p in pop], expected)
        ctx.nontrivial("random", tuple(vec), form, ri)
        if zero_hits:
            ctx.violation("zero-weight-item-drawn", dict(weights=vec, form=form, counts=counts), mechanism="C16/random-branch")
        elif res is not None and res[2] < LOG_ALPHA:
            ctx.violation("random-frequencies-inconsistent", dict(weights=vec, form=form, counts=counts, chi2=res[0], df=res[1], log_p=res[2]),
                          mechanism="C16/random-branch")
        else:
            ctx.count("random-branch/configurations-ok")
    if ctx.shard == 0:
        pop = ["a", "b", "c"]
        for name, kw in (("cum-short", dict(cum_weights=[1, 2])), ("cum-long", dict(cum_weights=[1, 2, 3, 4])), ("cum-total-zero", dict(cum_weights=[0, 0, 0])),
                         ("weights-short", dict(weights=[1, 2])), ("total-zero", dict(weights=[0, 0, 0])), ("both-kinds", dict(weights=[1, 1, 1], cum_weights=[1, 2, 3])),
                         ("cum-total-inf", dict(cum_weights=[1, 2, float("inf")]))):
            try:
                _random.choices(pop, k=1, **kw)
                continue
            except Exception as e:  # noqa: BLE001
                want = type(e).__name__
            r = outcome(real, None, pop, **kw)
            ctx.evaluated()
            ctx.nontrivial("random-malformed", name)
            if r[0] != "exc" or r[1] != want:
                ctx.violation("documented-error-not-raised", dict(input_id=None, malformed=name, expected=want, got=repr(r)[:120]),
                              mechanism="C16/documented-error-not-raised")
            else:
                ctx.count("random-branch/malformed-refused")
    ctx.sample(dict(input_id="g1912706679", population=["a", 0, None], weights=["1", "0", "2.5"], forms=["weights", "cum_weights", "none"]))


def replay(ctx, kind, w):
    im = impl()
    dc = build_contracted(im.binning.deterministic_choice)
    vec = w.get("weights")
    if not vec or "input_id" not in w:
        return
    nums = [to_number(t) for t in vec]
    pop = [f"item{j}" for j in range(len(vec))]
    r_w = outcome(dc, w["input_id"], pop, list(nums))
    r_c = outcome(dc, w["input_id"], pop, cum_weights=list(accumulate(nums)))
    if r_w[0] != "ok" or not same_result(r_w, r_c):
        ctx.violation(kind, w, mechanism="C16/replayed")
        return
    part = bucket.Partition([frac(t) for t in vec])
    if pop.index(r_w[1]) not in part.allowed(bucket.position_of_key(w["input_id"])):
        ctx.violation(kind, w, mechanism="C16/wrong-element")
