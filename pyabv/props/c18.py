"""C18 - confidence-interval helpers are well-formed, conservative and as documented.

icontract contracts on the real probit / confidence_interval, evaluated on every call of a grid
driver: lower <= upper (real floats), equality with the textbook formulas evaluated with the
module's own z-score, monotonicity in n and in confidence, symmetry and conservativeness of the
z-score against the stdlib normal quantile, refusal of unknown method names.
"""

from __future__ import annotations

import math
from statistics import NormalDist

from pyabv.impl import add_deps_path

RULE = (
    "cases = grid points: n on a log grid 1..10^9 (plus 1,2,3,49 and neighbours) x p in {0, 1e-300, 1e-12, .., 0.5, .., "
    "1-1e-12, 1} x confidence in {1e-300, 1e-17, .., 0.5, 0.9, 0.95, 0.99, 0.999, 1-1e-9, .., 1-1e-16} x both methods; "
    "monotonicity pairs along the n grid and the confidence grid; z-score: dyadic alphas j/2^k (symmetry exact) and "
    "log-spaced tails to 1e-300 against NormalDist().inv_cdf. distinct_nontrivial = distinct grid points with p in {0,1}, "
    "n <= 3 or confidence within 1e-6 of 0 or 1, plus all monotonicity pairs."
)
ASSUMPTIONS = [
    "textbook formulas: Wald p +- z*sqrt(p(1-p)/n); Agresti-Coull n'=n+z^2, p'=(np+z^2/2)/n', p' +- z*sqrt(p'(1-p')/n'); "
    "compared with |a-b| <= 1e-12 + 1e-12|b|",
    "conservativeness: probit(a) >= |NormalDist().inv_cdf(a)|*(1-1e-12) - 1e-15 (the logistic approximation touches the "
    "normal quantile to third order at a=0.5: measured minimum relative margin 4e-12)",
    "confidence so close to 1 that alpha/2 underflows to 0 (confidence > 1-2^-53) is outside the domain 0 < confidence < 1 "
    "as representable",
]
QUICK_SHARDS = 2
MIN_NONTRIVIAL = {"quick": 10000, "thorough": 400000}
TOL = 1e-12
# widths are differences of O(1) endpoints: a few ulps of 1.0 are float noise, not a wider interval
ABS_SLACK = 1e-14


class ContractBroken(Exception):
    pass


COUNTS = {"ci_post": 0, "probit_post": 0}


def close(a, b):
    return abs(a - b) <= TOL + TOL * abs(b)


def contracted(stats_mod):
    add_deps_path()
    import icontract

    real_probit = stats_mod.probit

    def interval_is_ordered_and_real(result):
        COUNTS["ci_post"] += 1
        lo, hi = result
        return isinstance(lo, float) and isinstance(hi, float) and lo <= hi

    def matches_textbook(n, p, confidence, method, result):
        z = real_probit((1 - confidence) / 2)
        if method.lower() == "wald":
            half = z * math.sqrt(p * (1 - p) / n)
            want = (p - half, p + half)
        else:
            n2 = n + z * z
            p2 = (n * p + z * z / 2) / n2
            half = z * math.sqrt(p2 * (1 - p2) / n2)
            want = (p2 - half, p2 + half)
        return close(result[0], want[0]) and close(result[1], want[1])

    def z_is_nonnegative_float(result):
        COUNTS["probit_post"] += 1
        return isinstance(result, float) and result >= 0.0 and not math.isnan(result)

    ci = icontract.ensure(interval_is_ordered_and_real, error=lambda: ContractBroken("lower <= upper (real floats) violated"))(
        stats_mod.confidence_interval)
    ci = icontract.ensure(matches_textbook, error=lambda: ContractBroken("differs from the textbook formula"))(ci)
    pr = icontract.ensure(z_is_nonnegative_float, error=lambda: ContractBroken("z-score is not a non-negative float"))(real_probit)
    return ci, pr


def n_grid(quick):
    g = {1, 2, 3, 4, 5, 9, 10, 11, 48, 49, 50, 99, 100, 101, 999, 1000, 1001}
    x = 1.0
    f = 10 ** (1 / (4 if quick else 16))
    while x <= 1e9:
        g.add(int(round(x)))
        x *= f
    g.add(10**9)
    return sorted(g)


def p_grid(quick):
    g = {0.0, 1.0, 0.5, 1e-300, 1e-12, 1e-9, 1e-6, 1e-3, 0.01, 0.05, 0.1, 0.25, 0.3, 1 / 3, 0.49, 0.51, 0.75, 0.9, 0.99, 0.999,
         1 - 1e-6, 1 - 1e-9, 1 - 1e-12}
    if not quick:
        g.update(i / 64 for i in range(65))
    return sorted(g) + [0, 1, True, False]  # p given as int / bool is still the proportion 0 or 1


def conf_grid(quick):
    g = [1e-300, 1e-17, 1e-12, 1e-9, 1e-6, 1e-3, 0.01, 0.1, 0.5, 0.8, 0.9, 0.95, 0.975, 0.99, 0.999, 0.9999, 1 - 1e-6, 1 - 1e-9,
         1 - 1e-12, 1 - 1e-15, 1 - 1e-16]
    if not quick:
        g += [i / 40 for i in range(1, 40)]
    return sorted(set(g))


def run(ctx):
    import pyab_experiment.utils.stats as S

    ci, pr = contracted(S)
    quick = ctx.quick()
    ns, ps, cs = n_grid(quick), p_grid(quick), conf_grid(quick)
    idx = 0

    style = [0]

    def call(n, p, c, m):
        style[0] += 1
        try:
            # the documented signature is (n, p, confidence, method): positional and keyword calls mean the same
            if style[0] % 3 == 0:
                return ("ok", ci(n, p, c, m))
            if style[0] % 3 == 1:
                return ("ok", ci(n, p, confidence=c, method=m))
            return ("ok", ci(n=n, p=p, confidence=c, method=m))
        except ContractBroken as e:
            return ("contract", str(e))
        except Exception as e:  # noqa: BLE001
            return ("exc", type(e).__name__, str(e)[:80])

    for m in ("agresti-coull", "wald", "WALD", "Agresti-Coull"):
        for p in ps:
            for c in cs:
                idx += 1
                if not ctx.mine(idx):
                    continue
                prev = None
                for n in ns:
                    r = call(n, p, c, m)
                    ctx.evaluated()
                    if p in (0.0, 1.0) or n <= 3 or c < 1e-6 or c > 1 - 1e-6:
                        ctx.nontrivial(n, p, c, m)
                    if r[0] != "ok":
                        mech = "C18/" + ("interval-malformed" if "lower" in str(r[1]) else "formula-differs" if r[0] == "contract" else "raised")
                        ctx.violation("interval-contract-broken", dict(n=n, p=p, confidence=c, method=m, got=r), mechanism=mech)
                        break
                    lo, hi = r[1]
                    w = hi - lo
                    if prev is not None and w > prev[1] * (1 + TOL) + ABS_SLACK:
                        ctx.violation("wider-with-more-trials", dict(p=p, confidence=c, method=m, n_small=prev[0], width_small=prev[1],
                                                                     n_large=n, width_large=w), mechanism="C18/not-monotone-in-n")
                        break
                    if prev is not None:
                        ctx.evaluated()
                        ctx.nontrivial("mono-n", prev[0], n, p, c, m)
                    prev = (n, w)
                else:
                    ctx.count("n-chains/ok")
    # monotone in confidence
    for m in ("agresti-coull", "wald"):
        for n in ns[:: 2 if quick else 1]:
            for p in ps:
                idx += 1
                if not ctx.mine(idx):
                    continue
                prev = None
                for c in cs:
                    r = call(n, p, c, m)
                    ctx.evaluated()
                    if r[0] != "ok":
                        ctx.violation("interval-contract-broken", dict(n=n, p=p, confidence=c, method=m, got=r), mechanism="C18/raised")
                        break
                    w = r[1][1] - r[1][0]
                    if prev is not None and w < prev[1] * (1 - TOL) - ABS_SLACK:
                        ctx.violation("narrower-with-more-confidence", dict(n=n, p=p, method=m, conf_low=prev[0], width_low=prev[1],
                                                                            conf_high=c, width_high=w), mechanism="C18/not-monotone-in-confidence")
                        break
                    if prev is not None:
                        ctx.evaluated()
                        ctx.nontrivial("mono-c", n, p, prev[0], c, m)
                    prev = (c, w)
                else:
                    ctx.count("confidence-chains/ok")
    # documented defaults (docstring: "Default is 0.5"; signature n=10, p=0.5, confidence=0.95, agresti-coull)
    if ctx.shard == 0:
        ctx.evaluated(2)
        try:
            d1 = (S.probit(), S.probit(0.5))
            d2 = (S.confidence_interval(), S.confidence_interval(10, 0.5, 0.95, "agresti-coull"), S.confidence_interval(n=10, p=0.5))
            if d1[0] != d1[1] or d2[0] != d2[1] or d2[0] != d2[2]:
                ctx.violation("documented-defaults-changed", dict(probit=d1, interval=d2), mechanism="C18/defaults")
            else:
                ctx.count("documented-defaults-ok")
        except Exception as e:  # noqa: BLE001
            ctx.violation("documented-defaults-changed", dict(error=[type(e).__name__, str(e)[:100]]), mechanism="C18/defaults")
    # unknown methods
    if ctx.shard == 0:
        for bad in ("walds", "", "agresti coull", "agresti_coull", "wilson", "clopper-pearson", "normal", "agresti-coull ", " wald", "w"):
            ctx.evaluated()
            try:
                got = S.confidence_interval(10, 0.5, 0.95, bad)
                ctx.violation("unknown-method-accepted", dict(method=bad, got=got), mechanism="C18/unknown-method-accepted")
            except NotImplementedError:
                ctx.count("unknown-method-refused")
                ctx.nontrivial("method", bad)
            except Exception as e:  # noqa: BLE001
                ctx.violation("unknown-method-wrong-error", dict(method=bad, error=type(e).__name__), mechanism="C18/unknown-method-accepted")
    # z-score: symmetry on dyadic alphas, conservativeness against the normal quantile
    nd = NormalDist()
    K = 14 if quick else 22
    margin = None
    for j in range(1, 2**K):
        if not ctx.mine(j):
            continue
        a = j / 2**K
        try:
            za, zb = pr(a), pr(1 - a)
        except ContractBroken as e:
            ctx.violation("z-score-contract-broken", dict(alpha=a, detail=str(e)), mechanism="C18/z-score")
            break
        ctx.evaluated()
        if not close(za, zb):
            ctx.violation("z-score-not-symmetric", dict(alpha=a, z=za, z_mirror=zb), mechanism="C18/z-score")
            break
        q = abs(nd.inv_cdf(a))
        if za < q * (1 - 1e-12) - 1e-15:
            ctx.violation("z-score-smaller-than-normal-quantile", dict(alpha=a, z=za, normal_quantile=q), mechanism="C18/z-score-not-conservative")
            break
        if q > 0:
            mrel = (za - q) / q
            margin = mrel if margin is None or mrel < margin else margin
    else:
        ctx.count("z-score/dyadic-points-ok")
    e = -1.0
    while e > -300:
        a = 10**e
        ctx.evaluated()
        za = pr(a)
        q = abs(nd.inv_cdf(a))
        if za < q * (1 - 1e-12) - 1e-15:
            ctx.violation("z-score-smaller-than-normal-quantile", dict(alpha=a, z=za, normal_quantile=q), mechanism="C18/z-score-not-conservative")
            break
        ctx.nontrivial("tail", e)
        e -= 0.25 if quick else 0.01
    ctx.note("min_relative_margin_over_normal_quantile", margin)
    ctx.count("contract-evaluations/interval", COUNTS["ci_post"])
    ctx.count("contract-evaluations/z-score", COUNTS["probit_post"])
    if not COUNTS["ci_post"] and ctx.shard == 0:
        ctx.set_inconclusive("interval contracts never evaluated")
    ctx.sample(dict(n=49, p=0.5, confidence=0.95, method="agresti-coull", result=list(S.confidence_interval(49, 0.5, 0.95))))


def replay(ctx, kind, w):
    import pyab_experiment.utils.stats as S

    ci, pr = contracted(S)
    try:
        if "alpha" in w:
            za = pr(w["alpha"])
            q = abs(NormalDist().inv_cdf(w["alpha"]))
            if za < q * (1 - 1e-12) - 1e-15:
                ctx.violation(kind, w, mechanism="C18/z-score-not-conservative")
        elif "n_small" in w:
            a = S.confidence_interval(w["n_small"], w["p"], w["confidence"], w["method"])
            b = S.confidence_interval(w["n_large"], w["p"], w["confidence"], w["method"])
            if (b[1] - b[0]) > (a[1] - a[0]) * (1 + TOL) + ABS_SLACK:
                ctx.violation(kind, w, mechanism="C18/not-monotone-in-n")
        elif "conf_low" in w:
            a = S.confidence_interval(w["n"], w["p"], w["conf_low"], w["method"])
            b = S.confidence_interval(w["n"], w["p"], w["conf_high"], w["method"])
            if (b[1] - b[0]) < (a[1] - a[0]) * (1 - TOL) - ABS_SLACK:
                ctx.violation(kind, w, mechanism="C18/not-monotone-in-confidence")
        elif "n" in w:
            ci(n=w["n"], p=w["p"], confidence=w["confidence"], method=w["method"])
        elif "method" in w:
            try:
                S.confidence_interval(10, 0.5, 0.95, w["method"])
                ctx.violation(kind, w, mechanism="C18/unknown-method-accepted")
            except NotImplementedError:
                pass
    except ContractBroken as e:
        ctx.violation(kind, dict(w, detail=str(e)), mechanism="C18/formula-differs")
