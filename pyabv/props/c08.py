"""C08 - comments and whitespace never change meaning.

Metamorphic monitor: the canonical rendering (tokens joined by single spaces) of a token
sequence is the baseline; variants differ only in trivia.  Verdict is behavioural: equal AST or
equal generated text is a sufficient shortcut, otherwise a fingerprint over an input panel
(result + the (population, weights, key) triple handed to the choice function when the probe is
reachable) decides.
"""

from __future__ import annotations

from pyabv.gen import corpus
from pyabv.gen import trivia as T
from pyabv.gen.programs import Profile, ProgGen
from pyabv.impl import ChoiceProbe, impl
from pyabv.props.common import POISON_TEXTS, Inferred, choose_inputs, poison, ref_parse

RULE = (
    "cases = (token sequence, trivia placement) variants: exhaustive per gap x trivia kind (27 kinds: spaces, tabs, "
    "LF, CRLF, FF, line comments with quotes / keywords / '/*' / '*/', block comments tight, empty, starred, "
    "multi-line, with quotes / keywords / '//', two per line, block-then-line) on seed + documented programs, plus "
    "random 1..3 pieces per gap on generated programs; every variant is re-lexed by the reference scanner and only "
    "used if its token sequence is unchanged. distinct_nontrivial = distinct variants containing >= 1 comment."
)
ASSUMPTIONS = [
    "block comments never contain '/*' (nesting is documented ambiguously) and string literals are not altered",
    "no trivia is inserted inside the two-word tokens 'else if' / 'not in' other than plain whitespace",
]
QUICK_SHARDS = 4
MIN_NONTRIVIAL = {"quick": 3000, "thorough": 100000}


class Baseline:
    def __init__(self, ctx, im, slices):
        self.slices = slices
        self.text = T.canonical(slices)
        self.sig = T.token_signature(self.text)
        self.ok = False
        st = ref_parse(self.text)
        if st[0] != "ok" or self.sig is None:
            ctx.count("harness/baseline-not-grammatical")
            return
        self.prog = st[1]
        p = im.parse(self.text)
        c = im.construct(self.text)
        if p[0] != "ok" or c[0] != "ok":
            ctx.count("baseline-does-not-compile (C07's business)")
            return
        self.ast = p[1]
        self.ev = c[1]
        try:
            self.gen = im.raw_codegen(self.text, False)
        except Exception:  # noqa: BLE001
            self.gen = None
        self.panel = None
        self.fp = None
        self.ok = True

    def fingerprint(self, ctx, im, ev):
        if self.panel is None:
            gp = Inferred(self.prog, self.text)
            self.panel, _ = choose_inputs(self.prog, gp, ctx.rnd, 64, pool_factor=4)
        fp = []
        with ChoiceProbe() as probe:
            for env in self.panel:
                before = probe.calls
                out = im.call(ev, env)
                seen = probe.last if probe.calls > before else None
                if seen is not None and self.prog.splitters:
                    fp.append((repr(out), repr(seen[:3])))
                elif out[0] == "ok" and not self.prog.splitters:
                    fp.append(("member", repr(seen[1:3]) if seen else None))  # random choice: compare the offer, not the draw
                else:
                    fp.append((repr(out), None))
        return fp


def check_variant(ctx, im, base, text, kinds_used, layer):
    sig = T.token_signature(text)
    if sig != base.sig:
        ctx.count("harness/variant-changed-token-sequence (dropped)")
        return
    ctx.evaluated()
    if kinds_used:
        ctx.nontrivial(text)
    for k in kinds_used:
        ctx.seen("comment_kinds", k)
    p = im.parse(text)
    c = im.construct(text)
    if p[0] != "ok" or c[0] != "ok":
        ctx.violation("variant-rejected", dict(baseline=base.text, variant=text, parse=p[:2] if p[0] != "ok" else "ok",
                                               construct=c[1:] if c[0] != "ok" else "ok", layer=layer),
                      mechanism="C08/variant-rejected")
        return
    try:
        same_ast = p[1] == base.ast
    except Exception:  # noqa: BLE001
        same_ast = False
    if same_ast:
        ctx.count(layer + "/same-ast")
        return
    try:
        gen = im.raw_codegen(text, False)
    except Exception:  # noqa: BLE001
        gen = None
    if gen is not None and gen == base.gen:
        ctx.count(layer + "/same-generated-text")
        return
    if base.fp is None:
        base.fp = base.fingerprint(ctx, im, base.ev)
    fp = base.fingerprint(ctx, im, c[1])
    if fp == base.fp:
        ctx.count(layer + "/same-behaviour-different-ast")
        return
    diff = next(i for i, (a, b) in enumerate(zip(fp, base.fp)) if a != b)
    ctx.violation("behaviour-changed", dict(baseline=base.text, variant=text, input=base.panel[diff],
                                            baseline_outcome=base.fp[diff], variant_outcome=fp[diff], layer=layer),
                  mechanism="C08/behaviour-changed")


def run(ctx):
    im = impl()
    rnd = ctx.rnd
    idx = 0
    seeds = list(corpus.SEEDS) + list(corpus.DOCUMENTED.values())
    if not ctx.quick():
        seeds += list(corpus.test_programs().values())
    kind_names = list(T.KINDS)
    for s in seeds:
        try:
            slices = T.token_slices(s)
        except Exception:  # noqa: BLE001
            ctx.count("harness/seed-not-lexable")
            continue
        base = None
        n = len(slices)
        for g in range(n + 1):
            for kn in kind_names:
                idx += 1
                if not ctx.mine(idx):
                    continue
                if base is None:
                    base = Baseline(ctx, im, slices)
                if not base.ok:
                    continue
                gaps = [""] + [" "] * (n - 1) + [""]
                gaps[g] = T.KINDS[kn]
                text = T.join(slices, gaps)
                check_variant(ctx, im, base, text, [kn] if kn in T.COMMENT_KINDS else [], "per-gap")
        # pairs of block comments in two different gaps of the same line (the D5 shape), every gap pair
        # at distance 1..4, and a trailing line comment at EOF without newline
        for g in range(n):
            for d in (1, 2, 3, 4):
                if g + d > n:
                    continue
                idx += 1
                if not ctx.mine(idx):
                    continue
                if base is None:
                    base = Baseline(ctx, im, slices)
                if not base.ok:
                    continue
                gaps = [""] + [" "] * (n - 1) + [""]
                gaps[g] = " /* a */ "
                gaps[g + d] = " /* b */ "
                check_variant(ctx, im, base, T.join(slices, gaps), ["two-blocks-same-line"], "block-pairs")
        # the blank inside `not in` / `else if` written differently (two blanks, tab, line break, CR LF)
        for wi, ws, text_v in T.inner_whitespace_variants(slices):
            idx += 1
            if not ctx.mine(idx):
                continue
            base = base or Baseline(ctx, im, slices)
            if base.ok:
                check_variant(ctx, im, base, text_v, ["inner-whitespace-of-two-word-keyword"], "inner-whitespace")
        idx += 1
        if ctx.mine(idx):
            base = base or Baseline(ctx, im, slices)
            if base.ok:
                for tail in (" // trailing comment without newline", "//", " /* tail */", "\n\n// x\n// y", " // */", " // /*"):
                    gaps = [""] + [" "] * (n - 1) + [tail]
                    check_variant(ctx, im, base, T.join(slices, gaps), ["eof-comment"], "eof")
    ctx.sample(dict(layer="per-gap", text=text[:400]))
    # random dense trivia on generated programs
    nprog = ctx.n(250, 30000)
    nvar = 8 if ctx.quick() else 10
    pg = ProgGen(rnd, Profile(max_depth=3, max_arms=3, pred_depth=3, hard_literals=0.5))
    for i in range(nprog):
        gp = pg.program()
        try:
            slices = T.token_slices(gp.text)
        except Exception:  # noqa: BLE001
            ctx.count("harness/generated-text-not-lexable")
            continue
        base = Baseline(ctx, im, slices)
        if not base.ok:
            continue
        for v in range(nvar):
            gaps, used = T.random_gaps(rnd, len(slices), density=rnd.choice([0.15, 0.5, 0.9]))
            text = T.join(slices, gaps)
            if i % 3 == 0 and v % 2 == 0:
                # a rejected text (e.g. one ending inside a comment) compiled in between must not matter
                poison(im, rnd.choice(POISON_TEXTS))
                check_variant(ctx, im, base, text, used, "random-after-rejected-text")
                continue
            check_variant(ctx, im, base, text, used, "random")
        # the original rendering (its own whitespace layout) is a variant too
        check_variant(ctx, im, base, gp.text, [], "random")
        if i < 2:
            ctx.sample(dict(layer="random", text=text[:600]))


def replay(ctx, kind, w):
    im = impl()
    slices = T.token_slices(w["baseline"])
    base = Baseline(ctx, im, slices)
    if base.ok:
        check_variant(ctx, im, base, w["variant"], ["replay"], "replay")
