"""C09 - assignment depends only on salt, splitter values and the routed branch.

Metamorphic monitor over pairs of calls / pairs of programs.  Equal pairs: extra kwargs, another
experiment name, permuted splitter declaration, another kwargs order, a condition field moved
inside the same branch.  Must-differ: across splitter values, across salts.  Must-raise: every
declared field omitted in turn.  When the hash-key probe is reachable the hashed key itself is
compared as direct evidence.
"""

from __future__ import annotations

from pyabv.gen.inputs import SPLITTER_VALUES, candidates
from pyabv.gen.programs import Profile, ProgGen, Renderer
from pyabv.impl import ProbaProbe, impl
from pyabv.props.common import choose_inputs, ref_parse, selection, self_check
from pyabv.ref.parse import Program, returns_of

RULE = (
    "cases = (program, transformation, input) triples over generated programs with splitters: transformations = extra "
    "kwargs (undeclared names, any values), experiment renamed, splitter declaration permuted, kwargs order reversed, "
    "condition-only field moved to another value selecting the same return statement (decided by the reference "
    "router), each declared field omitted (must raise); plus must-differ panels: 512 units under 1:1 weights (not all "
    "equal) and 512 units under two salts (>= 1 unit changes group) for 14 salt pairs. distinct_nontrivial = distinct "
    "triples whose routed return has >= 2 positive-weight groups."
)
ASSUMPTIONS = [
    "splitter names are not repeated inside one splitters clause",
    "must-differ panels use 512 units: a correct implementation fails them with probability 2^-511",
]
QUICK_SHARDS = 2
MIN_NONTRIVIAL = {"quick": 2000, "thorough": 100000}

SALT_PAIRS = [(None, "s"), ("", "s"), ("a", "b"), ("exp1", "exp2"), ("exp", "exp "), ("é", "e"), ("salt", "salt2"),
              ("A", "a"), ("x'y", "x\"y"), ("\\", "\\\\"), ("日本", "日本語"), ("0", "00"), ("s", "S"), (None, "0")]


def multi_group(prog, sel):
    if sel in (None, "UNROUTABLE"):
        return False
    ret = [r for r in returns_of(prog.cond) if r.ordinal == sel][0]
    return sum(1 for g in ret.groups if g.weight > 0) >= 2


def run(ctx):
    im = impl()
    rnd = ctx.rnd
    n = ctx.n(800, 200000)
    ninputs = 20
    pg = ProgGen(rnd, Profile(max_depth=2, max_arms=3, pred_depth=2, splitters=(1, 3), p_shared=0.3, weights="int"))
    R = Renderer(rnd, 0.1)
    key_cmp = 0
    with ProbaProbe() as probe:
        for pi in range(n):
            gp = pg.program()
            prog = self_check(ctx, gp)
            if prog is None or len(set(prog.splitters)) != len(prog.splitters):
                continue
            c = im.construct(gp.text)
            if c[0] != "ok":
                ctx.evaluated()
                ctx.violation("construct-failed", dict(text=gp.text, error=c[1:]), mechanism="C09/construct-failed")
                continue
            ev = c[1]
            # program-level twins
            # any grammatical name: plain ones, names of helpers of the generated code (all of which the evaluator
            # handles as experiment names on the unchanged tree), a declared field's own name
            new_name = rnd.choice(["renamed_" + prog.id, "x", "_", "Exp2", "partial", "deterministic_choice", "str", "map", "kwargs",
                                   "choose_experiment_variant", "ExperimentConditionalFailedError", "self", "print", "recompile", "run_experiment", "_checksum",
                                   "__call__", "__class__", "__dict__",
                                   rnd.choice(sorted(set(prog.splitters) | set(prog.identifiers)))])
            renamed = Program(new_name, prog.salt, prog.splitters, prog.cond, prog.n_returns, prog.identifiers)
            perm = list(prog.splitters)
            rnd.shuffle(perm)
            if perm == prog.splitters and len(perm) > 1:
                perm = perm[::-1]
            permuted = Program(prog.id, prog.salt, perm, prog.cond, prog.n_returns, prog.identifiers)
            twins = {}
            for tname, tp in (("renamed", renamed), ("splitters-permuted", permuted)):
                ttext = R.program(tp)
                tc = im.construct(ttext)
                if tc[0] != "ok":
                    ctx.violation("construct-failed", dict(text=ttext, error=tc[1:], twin_of=gp.text), mechanism="C09/construct-failed")
                    continue
                twins[tname] = (ttext, tc[1])
            declared = sorted(set(prog.splitters) | set(prog.identifiers))
            cond_only = [f for f in prog.identifiers if f not in prog.splitters]
            envs, _ = choose_inputs(prog, gp, rnd, ninputs, pool_factor=2)
            for env in envs:
                sel = selection(prog, env)
                if sel is None:
                    ctx.count("skipped/not-type-compatible")
                    continue
                base = im.call(ev, env)
                base_key = probe.last_key
                ctx.evaluated()
                if base[0] == "exc":
                    ctx.count("base-call-raised (C07's business)")
                    continue
                nt = multi_group(prog, sel)

                def same(tname, out, witness, key=None):
                    nonlocal key_cmp
                    ctx.evaluated()
                    if nt:
                        ctx.nontrivial(gp.text, tname, tuple(sorted((k, repr(v)) for k, v in env.items())))
                    if out != base:
                        ctx.violation("irrelevant-change-moved-assignment", dict(transformation=tname, text=gp.text, env=env,
                                                                                 base=base, got=out, **witness),
                                      mechanism="C09/depends-on-" + tname)
                        return
                    if base[0] == "ok" and probe.calls and key is not None and base_key is not None:
                        key_cmp += 1
                        if key != base_key:
                            ctx.violation("hashed-key-changed", dict(transformation=tname, text=gp.text, env=env,
                                                                     base_key=base_key, key=key, **witness),
                                          mechanism="C09/depends-on-" + tname)
                            return
                    ctx.count("equal/" + tname)

                # 1 extra kwargs
                extra = dict(env)
                for j in range(rnd.randint(1, 4)):
                    name = rnd.choice(["extra", "zzz", "uid2", "salt_", "weights", "population", "key", "_", "Extra", "x" * 40]) + str(j)
                    if rnd.random() < 0.4:
                        # a wide record may well have columns called like this; DSL keywords cannot be declared fields, so
                        # they can only ever arrive as extras
                        name = rnd.choice(["salt", "key", "weights", "population", "cum_weights", "input_id", "k", "w", "args", "kwargs", "self",
                                           "splitters", "def", "weighted", "experiment", "name", "seed", "choose_experiment_variant", "partial"])
                    if name not in declared:
                        extra[name] = rnd.choice(SPLITTER_VALUES + [(1, 2), [3], {"a": 1}])
                same("extra-kwargs", im.call(ev, extra), dict(extra=[k for k in extra if k not in env]), probe.last_key)
                # 2/3 twins
                for tname, (ttext, tev) in twins.items():
                    same(tname, im.call(tev, env), dict(twin_text=ttext), probe.last_key)
                # 4 kwargs order
                rev = dict(reversed(list(env.items())))
                same("kwargs-order", im.call(ev, rev), dict(), probe.last_key)
                # 5 condition-only field moved inside the same branch
                if cond_only and sel is not None:
                    f = rnd.choice(cond_only)
                    cands = candidates(gp.kinds[f], gp.lits.get(f, []), rnd)
                    rnd.shuffle(cands)
                    if gp.kinds[f] == "num" and rnd.random() < 0.5:
                        cands = [float("nan"), float("inf"), float("-inf")] + cands  # unordered / extreme values route too
                    for alt in cands[:8]:
                        env2 = dict(env)
                        env2[f] = alt
                        if repr(alt) != repr(env[f]) and selection(prog, env2) == sel:
                            same("condition-field-value", im.call(ev, env2), dict(field=f, alt=alt), probe.last_key)
                            break
                # must raise: every declared field omitted in turn
                for f in declared:
                    env3 = {k: v for k, v in env.items() if k != f}
                    out = im.call(ev, env3)
                    ctx.evaluated()
                    if out[0] == "exc":
                        # ... and no number of undeclared extra fields makes up for the missing one
                        out = im.call(ev, dict(env3, extra_a=1, extra_b="x", extra_c=None, **{f + "_": env.get(f)}))
                        ctx.evaluated()
                    if out[0] != "exc":
                        ctx.violation("missing-field-defaulted", dict(text=gp.text, env=env3, omitted=f, got=out),
                                      mechanism="C09/missing-field-defaulted")
                    else:
                        ctx.count("missing-field-raised/" + out[1])
            if pi < 2:
                ctx.sample(dict(text=gp.text, twins={k: v[0] for k, v in twins.items()}, env=env if envs else None))
        ctx.layer("hashed-key-probe", "observed" if probe.calls else "unreachable", hits=probe.calls, key_comparisons=key_cmp)

        # declaration order with names that only a careless sort would tie (case twins, numbered names)
        for names in (["uid", "UID"], ["sessionId", "sessionid", "SessionID"], ["seg2", "seg10", "seg1"], ["a_1", "a1", "A1"], ["x", "X", "_x"]):
            import itertools

            evs2 = {}
            for order in itertools.permutations(names):
                text = f'def po {{ salt: "s" splitters: {", ".join(order)} return "a" weighted 1, "b" weighted 1, "c" weighted 1 }}'
                c2 = im.construct(text)
                if c2[0] == "ok":
                    evs2[order] = (text, c2[1])
            base_order = tuple(names)
            if base_order not in evs2:
                ctx.violation("construct-failed", dict(names=names), mechanism="C09/construct-failed")
                continue
            for j in range(40):
                env = {n: f"v{j}-{i}" if (i + j) % 3 else j * 7 + i for i, n in enumerate(names)}
                want = im.call(evs2[base_order][1], env)
                for order, (text, ev2) in evs2.items():
                    got = im.call(ev2, env)
                    ctx.evaluated()
                    if got != want:
                        ctx.violation("irrelevant-change-moved-assignment", dict(transformation="splitters-permuted", text=evs2[base_order][0],
                                                                                 twin_text=text, env=env, base=want, got=got),
                                      mechanism="C09/depends-on-splitters-permuted")
                        break
                else:
                    ctx.nontrivial("perm", tuple(names), j)
                    continue
                break
            else:
                ctx.count("equal/splitters-permuted-name-twins")
        # must differ ---------------------------------------------------------------------------
        for i, (s1, s2) in enumerate(SALT_PAIRS):
            if not ctx.mine(i):
                continue
            evs = []
            for s in (s1, s2):
                from pyabv.gen.literals import render_lit
                from pyabv.ref.parse import Lit

                sd = f"salt: {render_lit(Lit(s, s))} " if s is not None else ""
                text = f'def md {{ {sd}splitters: uid return "a" weighted 1, "b" weighted 1 }}'
                if i % 3 == 1:  # the splitter is also read by the routing
                    text = f'def md {{ {sd}splitters: uid if uid != "__none__" {{ return "a" weighted 1, "b" weighted 1 }} else {{ return "a" weighted 1 }} }}'
                c = im.construct(text)
                evs.append((text, c[1] if c[0] == "ok" else None))
            if None in [e[1] for e in evs]:
                ctx.violation("construct-failed", dict(texts=[e[0] for e in evs]), mechanism="C09/construct-failed")
                continue
            units = [f"unit-{j}" if j % 2 else j for j in range(512)]
            if i % 2:
                units = [2**60 + j if j % 2 else 10**25 + j for j in range(512)]  # 64-bit and larger ids: neighbours are distinct units
            r1 = [im.call(evs[0][1], dict(uid=u)) for u in units]
            r2 = [im.call(evs[1][1], dict(uid=u)) for u in units]
            ctx.evaluated(1024)
            ctx.nontrivial("must-differ", s1, s2)
            if len(set(map(repr, r1))) < 2:
                ctx.violation("no-variation-across-units", dict(text=evs[0][0], distinct=sorted(set(map(repr, r1)))),
                              mechanism="C09/splitter-value-ignored")
            elif r1 == r2:
                ctx.violation("no-variation-across-salts", dict(texts=[e[0] for e in evs], salts=[s1, s2]),
                              mechanism="C09/salt-ignored")
            else:
                ctx.count("must-differ/ok")
                ctx.count("must-differ/units-that-changed-group", sum(1 for a, b in zip(r1, r2) if a != b))


def replay(ctx, kind, w):
    im = impl()
    if kind in ("no-variation-across-salts", "no-variation-across-units"):
        texts = w.get("texts") or [w["text"], w["text"]]
        evs = [im.construct(t) for t in texts]
        if all(e[0] == "ok" for e in evs):
            units = [f"unit-{j}" if j % 2 else j for j in range(512)]
            r1 = [im.call(evs[0][1], dict(uid=u)) for u in units]
            r2 = [im.call(evs[1][1], dict(uid=u)) for u in units]
            if len(set(map(repr, r1))) < 2:
                ctx.violation(kind, w, mechanism="C09/splitter-value-ignored")
            elif kind == "no-variation-across-salts" and r1 == r2:
                ctx.violation(kind, w, mechanism="C09/salt-ignored")
        return
    c = im.construct(w["text"])
    if c[0] != "ok":
        return
    if kind == "missing-field-defaulted":
        out = im.call(c[1], w["env"])
        if out[0] != "exc":
            ctx.violation(kind, w, mechanism="C09/missing-field-defaulted")
        return
    t = w.get("transformation")
    base = im.call(c[1], w["env"])
    if t in ("renamed", "splitters-permuted"):
        tc = im.construct(w["twin_text"])
        got = im.call(tc[1], w["env"]) if tc[0] == "ok" else tc
    elif t == "extra-kwargs":
        got = im.call(c[1], dict(w["env"], extra0=1, zzz1="x"))
    elif t == "kwargs-order":
        got = im.call(c[1], dict(reversed(list(w["env"].items()))))
    elif t == "condition-field-value":
        got = im.call(c[1], dict(w["env"], **{w["field"]: w["alt"]}))
    else:
        return
    if got != base:
        ctx.violation(kind, w, mechanism="C09/depends-on-" + str(t))
