"""C06 - text outside the grammar is rejected, never silently repaired.

Oracle: the independent recogniser (pyabv.ref).  A text it rejects must make
ExperimentEvaluator(text) raise *and* parse_source(text) raise or return None.  Texts the
reference calls Ambiguous are never judged.  stdout/stderr chatter is captured and ignored.
"""

from __future__ import annotations

from pyabv.gen import corpus
from pyabv.gen.mutate import random_mutation, single_mutations
from pyabv.gen.programs import Profile, ProgGen
from pyabv.gen.trivia import token_slices
from pyabv.impl import impl
from pyabv.props.common import POISON_TEXTS, poison, ref_parse

RULE = (
    "cases = mutated texts (exhaustive single token mutations of 12 seed programs + documented examples; random "
    "1..3-fold mutations of generated programs: delete, duplicate, swap, insert token, illegal character free or "
    "glued, broken operator / weight, prefix / suffix junk incl. unterminated comment or string, truncation, "
    "concatenation; empty / whitespace-only / comment-only texts; two-step cases where a rejected text (unterminated comment "
    "or string, illegal character, truncation) is compiled first and a text that only a state-keeping lexer would accept "
    "follows). Judged only when the independent recogniser "
    "rejects the text. distinct_nontrivial = distinct rejected texts."
    ' Added later: glue (two neighbours without the blank), invisible characters between / glued to / inside tokens, a comment between the two words of a two-word keyword, a line break inside a string literal, junk 70 000 .. 1 200 000 characters behind a complete definition.'
)
ASSUMPTIONS = [
    "the independent recogniser (pyabv/ref) decides what is outside the documented grammar; inputs it calls ambiguous "
    "('elseif', nested '/*', non-ASCII digits, exotic whitespace inside two-word tokens) are not judged",
    "'rejected' = ExperimentEvaluator(text) raises any exception and parse_source(text) raises or returns None",
]
QUICK_SHARDS = 4
MIN_NONTRIVIAL = {"quick": 5000, "thorough": 100000}

FIXED_TEXTS = [
    "", " ", "\n", "\t\n  ", "// only a comment", "// only a comment\n", "/* only a block comment */", "/**/",
    "/* open", "/*", "//", "def", "def x", "def x {", "def x { }", "def x {}", "{}", "}", "def x { return }",
    'def x { return "a" }', 'def x { return "a" weighted }', 'def x { return "a" weighted 1, }',
    'def x { return "a" weighted 1 "b" weighted 1 }', 'def x { return a weighted 1 }',
    'def x { return ("a") weighted 1 }', 'def x { return (1, 2) weighted 1 }',
    'def x { splitters: return "a" weighted 1 }', 'def x { splitters: a, return "a" weighted 1 }',
    'def x { splitters: a b return "a" weighted 1 }', 'def x { splitters: "a" return "a" weighted 1 }',
    'def x { splitters: a salt: "s" return "a" weighted 1 }', 'def x { salt: s return "a" weighted 1 }',
    'def x { salt: "s" salt: "t" return "a" weighted 1 }', 'def x { salt "s" return "a" weighted 1 }',
    'def x { splitters: a splitters: b return "a" weighted 1 }',
    'def "x" { return "a" weighted 1 }', 'def 1 { return "a" weighted 1 }', 'def if { return "a" weighted 1 }',
    'def x y { return "a" weighted 1 }', 'x { return "a" weighted 1 }', 'DEF x { return "a" weighted 1 }',
    'def x ( return "a" weighted 1 )', 'def x { return "a" weighted 1 } }', 'def x { { return "a" weighted 1 } }',
    'def x { if a { return "a" weighted 1 } }', 'def x { if a == { return "a" weighted 1 } }',
    'def x { if == 1 { return "a" weighted 1 } }', 'def x { if a == 1 return "a" weighted 1 }',
    'def x { if a == 1 { } }', 'def x { if a == 1 { return "a" weighted 1 } else }',
    'def x { else { return "a" weighted 1 } }', 'def x { if a == 1 { return "a" weighted 1 } else { return "b" weighted 1 } '
    'else { return "c" weighted 1 } }',
    'def x { if a == 1 { return "a" weighted 1 } else { return "b" weighted 1 } else if a == 2 { return "c" weighted 1 } }',
    'def x { if a == 1 == 2 { return "a" weighted 1 } }', 'def x { if a == 1 and { return "a" weighted 1 } }',
    'def x { if and a == 1 { return "a" weighted 1 } }', 'def x { if a == 1 or or b == 2 { return "a" weighted 1 } }',
    'def x { if not { return "a" weighted 1 } }', 'def x { if (a == 1 { return "a" weighted 1 } }',
    'def x { if a == 1) { return "a" weighted 1 } }', 'def x { if a in () { return "a" weighted 1 } }',
    'def x { if a in (1,) { return "a" weighted 1 } }', 'def x { if a in (1 2) { return "a" weighted 1 } }',
    'def x { if a in (,1) { return "a" weighted 1 } }', 'def x { if a in 1, 2 { return "a" weighted 1 } }',
    'def x { if a == --1 { return "a" weighted 1 } }', 'def x { if a == -"s" { return "a" weighted 1 } }',
    'def x { if a == -b { return "a" weighted 1 } }', 'def x { if a == +1 { return "a" weighted 1 } }',
    'def x { if a not 1 { return "a" weighted 1 } }', 'def x { if a in not (1) { return "a" weighted 1 } }',
    'def x { if a is 1 { return "a" weighted 1 } }', 'def x { if a = 1 { return "a" weighted 1 } }',
    'def x { if a => 1 { return "a" weighted 1 } }', 'def x { if a =< 1 { return "a" weighted 1 } }',
    'def x { if a <> 1 { return "a" weighted 1 } }', 'def x { if a && b == 1 { return "a" weighted 1 } }',
    'def x { if a == 1 || b == 2 { return "a" weighted 1 } }', 'def x { if !a == 1 { return "a" weighted 1 } }',
    'def x { if a == 1; { return "a" weighted 1 } }', 'def x { return "a" weighted 1; }',
    'def x { return "a" weighted .5 }', 'def x { return "a" weighted 5. }', 'def x { return "a" weighted -1 }',
    'def x { return "a" weighted 1e5 }', 'def x { return "a" weighted 1.5.2 }', 'def x { return "a" weight 1 }',
    'def x { return "a" weighted 1 weighted 2 }', 'def x { return "a\nb" weighted 1 }', 'def x { return "a weighted 1 }',
    "def x { return 'a\" weighted 1 }", 'def x { return "a" weighted 1 } /* open', 'def x { return "a" weighted 1 } /* a */ */',
    'def x { return "a" weighted 1 } */', 'def x { return "a" weighted 1 /* open }', 'def x { return "a" /* x weighted 1 }',
    'def x { return "a" weighted 1 } garbage', 'def x { return "a" weighted 1 } def y { return "b" weighted 1 }',
    'garbage def x { return "a" weighted 1 }', 'def broken { return } def x { return "a" weighted 1 }',
    'def x { return "a" weighted 1 } 1', 'def x.y { return "a" weighted 1 }', 'def x-y { return "a" weighted 1 }',
    'def x { return "a" weighted 1 } "s"', 'def x { splitters: a.b return "a" weighted 1 }',
    'def x { if a.b == 1 { return "a" weighted 1 } }', 'def x { if a == 1.  { return "a" weighted 1 } }',
    'def x { if a == 1 { return "a" weighted 1 } elif a == 2 { return "b" weighted 1 } }',
    'def x { if a == 1 { return "a" weighted 1 } else if { return "b" weighted 1 } }',
    'def x { if a == 1 { return "a" weighted 1 } else a == 2 { return "b" weighted 1 } }',
    'def x { if a == 1 : return "a" weighted 1 }', 'def x: return "a" weighted 1', 'def x() { return "a" weighted 1 }',
    'def x { return "a" weighted 1, return "b" weighted 1 }', 'def x { return "a" weighted 1 return "b" weighted 1 }',
    'def x { return return "a" weighted 1 }', 'def x { if a == 1 { return "a" weighted 1 } return "b" weighted 1 }',
    'def x { return "b" weighted 1 if a == 1 { return "a" weighted 1 } }',
]


def judge_text(ctx, im, text, kind, detail=None):
    """returns 'rejected-ok' | 'accepted-valid' | 'ambiguous' | 'violation'"""
    st = ref_parse(text)
    ctx.evaluated()
    if st[0] == "ambiguous":
        ctx.count("ambiguous-not-judged")
        return "ambiguous"
    if st[0] == "ok":
        ctx.count("mutant-still-grammatical")
        return "accepted-valid"
    c = im.construct(text)
    p = im.parse(text)
    ctx.nontrivial(text)
    ctx.count("rejected-by-reference/" + kind)
    bad = []
    if c[0] == "ok":
        bad.append("ExperimentEvaluator(text) returned an evaluator")
    if p[0] == "ok":
        bad.append("parse_source(text) returned an AST")
    if bad:
        ctx.violation(
            "accepted-invalid-text",
            dict(text=text, mutation=kind, detail=detail, reference_reason=st[1], what=bad),
            mechanism="C06/" + classify(text, st[1]),
        )
        return "violation"
    ctx.seen("rejection_exception_types", c[1])
    return "rejected-ok"


def classify(text, reason):
    if "unterminated block comment" in reason:
        return "unterminated-block-comment"
    if "illegal character" in reason or "unterminated string" in reason:
        return "illegal-character-skipped"
    return "syntax-error-recovered"


def run(ctx):
    im = impl()
    rnd = ctx.rnd
    idx = 0
    for t in FIXED_TEXTS:
        idx += 1
        if ctx.mine(idx):
            r = judge_text(ctx, im, t, "fixed")
            if r == "accepted-valid":
                ctx.note("fixed_text_accepted_by_reference", t)
                ctx.count("harness/fixed-invalid-text-accepted-by-reference")
    # junk far behind a complete definition (tens of thousands to a million characters of white space or comments later): the
    # whole text is the unit of compilation, however long it is
    if ctx.shard in (0, 1):
        good = 'def far { splitters: u return "a" weighted 1, "b" weighted 1 }'
        for pi, pad in enumerate([" " * 70000, "\n" * 70000, "// filler line\n" * 5000, "/* block */ " * 6000, " " * 300000,
                                  "\t\n" * 600000 if not ctx.quick() else " " * 131072]):
            if pi % 2 != ctx.shard:
                continue
            for junk in ("@", "}", 'def second { return "z" weighted 1 }', "junk", "/* open", '"open', "0"):
                small = good + " " + junk
                if ref_parse(small)[0] != "reject":
                    ctx.count("harness/far-junk-not-rejected-by-reference")
                    continue
                text = good + pad + junk
                c = im.construct(text)
                ctx.evaluated()
                ctx.nontrivial("far-junk", pi, junk)
                if c[0] == "ok":
                    ctx.violation("invalid-text-accepted", dict(text_head=good, padding=repr(pad[:12]) + f" x {len(pad)} chars", junk=junk, layer="far-junk"),
                                  mechanism="C06/trailing-text-ignored")
                else:
                    ctx.count("far-junk/rejected")
        ctx.evaluated()
        if im.construct(good + " " * 200000)[0] != "ok":
            ctx.violation("valid-text-rejected", dict(text_head=good, padding="200000 blanks", layer="far-junk"), mechanism="C06/valid-long-text-rejected")
    seeds = list(corpus.SEEDS) + list(corpus.DOCUMENTED.values())
    for s in seeds:
        slices = token_slices(s)
        for kind, detail, text in single_mutations(slices):
            idx += 1
            if not ctx.mine(idx):
                continue
            judge_text(ctx, im, text, kind, detail)
    ctx.sample(dict(layer="single", mutation=kind, text=text[:300]))
    # an evaluator that holds a valid text is recompiled to an invalid text made of the same non-blank characters (a
    # newline inside a string literal, a // comment that swallows the rest): it must be rejected just the same
    base = 'def rc {\n splitters: u // note\n return "grp A" weighted 1, "grp B" weighted 2\n}\n'
    siblings = [base.replace("// note\n", "// note "), base.replace('"grp A"', '"grp\nA"'), base.replace("\n}", " } }"),
                base.replace(" weighted 1", " weighted\t1 ;"), " ".join(base.split())]
    if ctx.shard == 0:
        for sib in siblings:
            st = ref_parse(sib)
            c0 = im.construct(base)
            ctx.evaluated()
            if st[0] != "reject" or c0[0] != "ok":
                ctx.count("harness/sibling-not-rejected-by-reference" if st[0] != "reject" else "baseline-does-not-compile (C07's business)")
                continue
            ctx.nontrivial("recompile-sibling", sib)
            try:
                import contextlib
                import io

                with contextlib.redirect_stdout(io.StringIO()), contextlib.redirect_stderr(io.StringIO()):
                    c0[1].recompile(sib)
                ctx.violation("accepted-invalid-text", dict(text=sib, mutation="recompile-to-invalid-sibling", detail=dict(first=base),
                                                            reference_reason=st[1], what=["recompile(text) returned"]),
                              mechanism="C06/invalid-recompile-accepted")
            except Exception:  # noqa: BLE001
                ctx.count("rejected-by-reference/recompile-to-invalid-sibling")
    # two-step cases: a rejected text first, then a text that is only "valid" for a lexer / parser that kept state from
    # the failure (comment mode, an open string, parser stack)
    valid = 'def b { splitters: u return "x" weighted 1, "y" weighted 1 }'
    followups = ["junk */ " + valid, "@ ; = */ " + valid, "*/ " + valid, 'x" ' + valid, "y' " + valid, "} " + valid,
                 'weighted 1 } ' + valid, '"a" weighted 1 } ' + valid, "1 } } " + valid, valid + " */", valid + ' "']
    for pz in POISON_TEXTS:
        for f in followups:
            idx += 1
            if not ctx.mine(idx):
                continue
            poison(im, pz)
            judge_text(ctx, im, f, "after-rejected-text", dict(first=pz))
    # random multi-mutations
    n = ctx.n(6000, 1200000)
    pg = ProgGen(rnd, Profile(max_depth=2, max_arms=3, pred_depth=2))
    prev = None
    for i in range(n):
        if i % 4 == 0 or prev is None:
            gp = pg.program()
            try:
                slices = token_slices(gp.text)
            except Exception:
                ctx.count("harness/generated-text-not-lexable")
                continue
        s, kinds = slices, []
        for _ in range(rnd.choice([1, 1, 1, 2, 3])):
            k, s = random_mutation(rnd, s, prev)
            kinds.append(k)
            if not s:
                break
        text = " ".join(s)
        r = judge_text(ctx, im, text, kinds[0] if len(kinds) == 1 else f"multi{len(kinds)}", kinds)
        if i < 3:
            ctx.sample(dict(layer="random", mutation=kinds, text=text[:300], verdict=r))
        prev = slices


def replay(ctx, kind, w):
    if isinstance(w.get("detail"), dict) and "first" in w["detail"]:
        poison(impl(), w["detail"]["first"])
    judge_text(ctx, impl(), w["text"], w.get("mutation", "replay"), w.get("detail"))
