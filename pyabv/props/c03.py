"""C03 - weights partition the hash space exactly, in declared order.

Oracle: exact rational partition (pyabv.ref.bucket).  Three layers: (a) bulk real ids through a
compiled experiment, (b) golden boundary ids through the unmodified pipeline, (c) injected hash
positions (binning.deterministic_proba substituted) through the evaluator and directly on
deterministic_choice.
"""

from __future__ import annotations

from pyabv.gen import golden
from pyabv.gen.weights import frac, random_vector, to_number
from pyabv.impl import ProbaProbe, impl
from pyabv.ref import bucket

RULE = (
    "cases = (weight vector, hash position k) pairs. (a) sequential / random real ids, k recomputed with hashlib; (b) "
    "golden ids: preimages of kb-2..kb+1 for every boundary of 39 fixed vectors and of 0,1,2,2^32-1.. through the "
    "unmodified pipeline in three key shapes; (c) injected positions for random vectors (1..64 groups, ints to 1e9, "
    "decimals 1e-9..1e9, zeros anywhere): every boundary +-2, 0, 2^32-1, one interior point per group spanning >= 3 "
    "grid points, via the evaluator and via deterministic_choice directly; (d) return statements that repeat a group "
    "literal or list literals that compare equal (1, 1.0): the value returned must belong to the position owning the "
    "segment. distinct_nontrivial = distinct (vector, k) "
    "with k within 2 grid points of a boundary or range end, or a vector containing a zero / sub-grid weight."
)
ASSUMPTIONS = [
    "exact equality is demanded only for integer-valued weights with sum <= 65536 (every float operation exact); "
    "otherwise every positive-weight group whose exact interval meets [(k-1)/2^32,(k+1)/2^32] is accepted",
    "layer (c) needs binning.deterministic_proba to be resolved through the module at call time; if the wrapper is "
    "never reached the layer is reported unreachable and the boundary layers (a)+(b) decide alone",
]
QUICK_SHARDS = 4
MIN_NONTRIVIAL = {"quick": 3000, "thorough": 200000}
GRID = bucket.GRID


def program_text(vec, salt=None, fields=("uid",)):
    groups = ", ".join(f'"g{i}" weighted {w}' for i, w in enumerate(vec))
    s = f'salt: "{salt}" ' if salt is not None else ""
    return f"def w {{ {s}splitters: {', '.join(fields)} return {groups} }}"


def judge(ctx, part, vec, k, out, layer, how):
    ctx.evaluated()
    allowed = part.allowed(k)
    zero_or_tiny = getattr(part, "_special", None)
    if zero_or_tiny is None:
        part._special = zero_or_tiny = any(w == 0 or w / sum(part.w) * GRID < 1 for w in part.w)
    if part.near_boundary(k) or zero_or_tiny:
        ctx.nontrivial(tuple(vec), k)
    if out[0] != "ok" or not (isinstance(out[1], str) and out[1].startswith("g")):
        ctx.violation("no-group", dict(weights=vec, k=k, got=out, layer=layer, how=how), mechanism="C03/no-group")
        return False
    idx = int(out[1][1:])
    if idx not in allowed:
        zero = part.w[idx] == 0
        ctx.violation("zero-weight-selected" if zero else "outside-partition",
                      dict(weights=vec, k=k, got_index=idx, allowed=sorted(allowed), exact_index=part.exact(k),
                           exact_class=part.exact_class, layer=layer, how=how),
                      mechanism="C03/zero-weight-selected" if zero else "C03/outside-partition")
        return False
    if idx != part.exact(k):
        ctx.count(layer + "/within-tolerance-but-not-exact")
    ctx.count(layer + "/ok")
    return True


def layer_bulk(ctx, im, vec, n):
    part = bucket.Partition([frac(w) for w in vec])
    salt = ctx.rnd.choice([None, "s", "exp-2024"])
    c = im.construct(program_text(vec, salt))
    if c[0] != "ok":
        ctx.violation("construct-failed", dict(weights=vec, error=c[1:]), mechanism="C03/construct-failed")
        return
    base = ctx.rnd.choice([0, 1000, 10**6, 10**12])
    best = None
    for i in range(n):
        uid = base + i if i % 2 == 0 else f"user_{base + i}"
        k = bucket.position(salt, ["uid"], {"uid": uid})
        out = im.call(c[1], {"uid": uid})
        if not judge(ctx, part, vec, k, out, "bulk", dict(uid=uid, salt=salt)):
            return
        # distance to the nearest boundary, in grid points
        j = part._bl(part.ceil, k)
        for t in (j - 1, j):
            if 0 < t < part.n:
                d = abs(part.ceil[t] - k)
                best = d if best is None or d < best else best
    if best is not None:
        cur = ctx.notes.get("bulk_min_boundary_distance_gridpoints")
        ctx.note("bulk_min_boundary_distance_gridpoints", best if cur is None else min(cur, best))


def layer_golden(ctx, im, vec, gold, shapes):
    part = bucket.Partition([frac(w) for w in vec])
    targets = set()
    for kb in part.ceil[1:-1]:
        targets.update((kb - 2, kb - 1, kb, kb + 1))
    targets.update((0, 1, 2, GRID - 1, GRID - 2, GRID - 3))
    evs = {}
    for how in shapes:
        salt, env = golden.split_id("g12345", how)
        text = program_text(vec, salt, tuple(sorted(env)))
        c = im.construct(text)
        if c[0] != "ok":
            ctx.violation("construct-failed", dict(weights=vec, text=text, error=c[1:]), mechanism="C03/construct-failed")
            return
        evs[how] = c[1]
    for k in sorted(targets):
        for gid in gold.get(k, [])[:2]:
            for how in shapes:
                salt, env = golden.split_id(gid, how)
                out = im.call(evs[how], env)
                if not judge(ctx, part, vec, k, out, "golden", dict(id=gid, shape=how)):
                    return
                ctx.count("golden/positions-on-or-next-to-a-boundary")


def positions_for(part, rnd):
    ks = {0, 1, GRID - 1, GRID - 2}
    for kb in part.ceil[1:-1]:
        for d in (-2, -1, 0, 1, 2):
            if 0 <= kb + d < GRID:
                ks.add(kb + d)
    interior = {}
    for i in range(part.n):
        lo, hi = part.span(i)
        if hi - lo >= 3:
            interior[i] = (lo + hi) // 2
            ks.add(interior[i])
    for _ in range(4):
        ks.add(rnd.randrange(GRID))
    return sorted(ks), interior


def layer_injected(ctx, im, vec):
    rnd = ctx.rnd
    part = bucket.Partition([frac(w) for w in vec])
    labels = [f"g{i}" for i in range(len(vec))]
    c = im.construct(program_text(vec))
    if c[0] != "ok":
        ctx.violation("construct-failed", dict(weights=vec, error=c[1:]), mechanism="C03/construct-failed")
        return
    ks, interior = positions_for(part, rnd)
    numeric = [to_number(w) for w in vec]
    selected = set()
    with ProbaProbe() as probe:
        for k in ks:
            probe.inject = k / GRID
            before = probe.calls
            out = im.call(c[1], {"uid": "x"})
            if probe.calls == before:
                ctx.layer("injected-via-evaluator", "unreachable")
                break
            if not judge(ctx, part, vec, k, out, "injected-evaluator", dict(inject=k)):
                return
            selected.add(out[1])
            # the same substitution on the public choice function ("observe_at" of the property)
            try:
                direct = ("ok", im.binning.deterministic_choice("x", labels, numeric))
            except Exception as e:  # noqa: BLE001
                direct = ("exc", type(e).__name__, str(e)[:100])
            if not judge(ctx, part, vec, k, direct, "injected-direct", dict(inject=k)):
                return
        else:
            ctx.layer("injected-via-evaluator", "observed", hits=probe.calls)
            for i, k in interior.items():
                # a group spanning >= 3 grid points must be selected at its interior point
                if part.allowed(k) == {i} and labels[i] not in selected:
                    ctx.violation("group-not-selectable", dict(weights=vec, group=i, interior_k=k),
                                  mechanism="C03/group-not-selectable")
                    return
            ctx.count("injected/groups-with-interior-point", len(interior))


def layer_repeated_labels(ctx, im, vec, labels):
    """(d) a return statement may name the same group literal more than once (or literals that merely compare equal,
    1 and 1.0): each *position* in the statement still owns its own segment of the hash space"""
    from pyabv.gen.literals import render_lit
    from pyabv.props.common import same_value

    part = bucket.Partition([frac(w) for w in vec])
    groups = ", ".join(f"{render_lit(lb)} weighted {w}" for lb, w in zip(labels, vec))
    text = f'def rep {{ salt: "rep" splitters: uid return {groups} }}'
    c = im.construct(text)
    if c[0] != "ok":
        ctx.violation("construct-failed", dict(text=text, error=c[1:]), mechanism="C03/construct-failed")
        return

    def check(k, out, how):
        ctx.evaluated()
        ctx.nontrivial(text, k)
        ok = out[0] == "ok" and any(same_value(out[1], labels[i].value) for i in part.allowed(k))
        if not ok:
            ctx.violation("repeated-label-segment-moved", dict(text=text, weights=vec, k=k, got=out, exact_index=part.exact(k),
                                                              expected=[labels[i].value for i in sorted(part.allowed(k))], how=how),
                          mechanism="C03/outside-partition")
        return ok

    for i in range(300):
        uid = f"r{i}" if i % 2 else i
        if not check(bucket.position("rep", ["uid"], {"uid": uid}), im.call(c[1], {"uid": uid}), dict(uid=uid)):
            return
    ks, _ = positions_for(part, ctx.rnd)
    with ProbaProbe() as probe:
        for k in ks:
            probe.inject = k / GRID
            before = probe.calls
            out = im.call(c[1], {"uid": "x"})
            if probe.calls == before:
                break
            if not check(k, out, dict(inject=k)):
                return
    ctx.count("repeated-labels/statements-ok")


def run(ctx):
    im = impl()
    rnd = ctx.rnd
    gold = golden.load()
    # (b) golden ids: partitioned over shards
    shapes = ("plain", "salt", "two")
    for i, vec in enumerate(golden.GOLDEN_VECTORS):
        if ctx.mine(i):
            layer_golden(ctx, im, vec, gold, shapes if not ctx.quick() or i % 3 == 0 else ("plain",))
            ctx.seen("golden_vectors", ",".join(vec[:6]) + ("..." if len(vec) > 6 else ""))
    # (a) bulk
    nvec_bulk = ctx.n(16, 40 * 14)
    nids = 5000 if ctx.quick() else 70000
    fixed = [["1", "1"], ["1", "2", "3"], ["3.4", "5", "3"], ["1", "0", "1"], ["0.1", "0.2", "0.7"], ["1", "99"]]
    for i in range(nvec_bulk):
        vec = fixed[i % len(fixed)] if i < len(fixed) and ctx.shard == 0 else random_vector(rnd, 16)
        layer_bulk(ctx, im, vec, nids if i < 4 else nids // 10)
    # (c) injected
    nvec = ctx.n(8000, 400000)
    from pyabv.impl import host_settings

    for i in range(nvec):
        vec = random_vector(rnd)
        # every tenth vector with the host's decimal context cut to 3 digits, every tenth with a clock running 3600x fast
        with host_settings({0: "decimal", 5: "clock"}.get(i % 10)):
            layer_injected(ctx, im, vec)
        ctx.count("host-settings/" + {0: "decimal", 5: "clock"}.get(i % 10, "default"))
        if i < 2:
            ctx.sample(dict(layer="injected", weights=vec))
    # (d) repeated / equal-comparing labels
    from pyabv.ref.parse import Lit

    pools = [
        [Lit("A", "A"), Lit("B", "B"), Lit("A", "A")],
        [Lit("A", "A"), Lit("A", "A"), Lit("B", "B"), Lit("A", "A"), Lit("B", "B")],
        [Lit(1, "1"), Lit(1.0, "1.0"), Lit("1", "1")],
        [Lit(1.0, "1.0"), Lit(2, "2"), Lit(1, "1"), Lit(2.0, "2.0")],
        [Lit(0, "0"), Lit(0.0, "0.0"), Lit(-0.0, "-0.0")],
        [Lit("x", "x")] * 4,
        [Lit(True and 1, "1"), Lit("a", "a"), Lit(1, "1")],
    ]
    nrep = ctx.n(120, 20000)
    for i in range(nrep):
        labels = pools[i % len(pools)] if i < 2 * len(pools) else [rnd.choice(rnd.choice(pools)) for _ in range(rnd.randint(2, 8))]
        vec = [rnd.choice(["1", "2", "3", "0", "0.5", "10", "2.5"]) for _ in labels]
        if all(frac(w) == 0 for w in vec):
            vec[0] = "1"
        layer_repeated_labels(ctx, im, vec, labels)
    ctx.sample(dict(layer="golden", example=dict(weights=["3.4", "5", "3"], text=program_text(["3.4", "5", "3"]))))


def replay(ctx, kind, w):
    im = impl()
    vec = w["weights"]
    part = bucket.Partition([frac(x) for x in vec])
    k = w.get("k", w.get("interior_k"))
    c = im.construct(program_text(vec))
    if c[0] != "ok":
        ctx.violation("construct-failed", dict(weights=vec, error=c[1:]), mechanism="C03/construct-failed")
        return
    with ProbaProbe() as probe:
        probe.inject = k / GRID
        out = im.call(c[1], {"uid": "x"})
        if probe.calls:
            judge(ctx, part, vec, k, out, "replay", dict(inject=k))
        direct = ("ok", im.binning.deterministic_choice("x", [f"g{i}" for i in range(len(vec))], [to_number(x) for x in vec]))
        judge(ctx, part, vec, k, direct, "replay-direct", dict(inject=k))
    how = w.get("how") or {}
    if "id" in how:
        salt, env = golden.split_id(how["id"], how["shape"])
        c2 = im.construct(program_text(vec, salt, tuple(sorted(env))))
        if c2[0] == "ok":
            judge(ctx, part, vec, k, im.call(c2[1], env), "replay-golden", how)
