"""C04 - realistic id populations split in proportion, independently across salts.

Offline statistical checker over recorded counts: Pearson chi-square goodness of fit against
w_i/W and chi-square test of independence on the salt-A x salt-B contingency table, both at
significance 1e-9 (the level the property names).  Everything goes through DSL-compiled
evaluators with the `salt:` clause.
"""

from __future__ import annotations

import math

from pyabv import stats
from pyabv.gen.literals import render_lit
from pyabv.gen.weights import frac
from pyabv.impl import impl
from pyabv.ref.parse import Lit

RULE = (
    "cases = configurations (id family x population offset x salt or salt pair x weight vector), each evaluated on a "
    "population of distinct ids (20 000 quick / 100 000 thorough): sequential integers (offsets to 10^12, and 64-bit / snowflake-style offsets 2^53 .. 10^30), zero-padded "
    "decimals, random and time-ordered UUID-like strings, e-mail-like strings, hex session ids, two- and three-field keys "
    "with a low-cardinality first field. Goodness of fit per configuration, independence per salt pair (absent / empty / "
    "ASCII / non-ASCII / differing in the last character / one a prefix of the other). distinct_nontrivial = distinct "
    "configurations whose chi-square test had all expected cell counts >= 5 after merging."
    ' Added later: salt families url / commented / spaced on fresh and on long-lived recompiled evaluators (round 9); exact binomial test (both tails, 1e-9) for hold-back groups of share 1e-6..2e-5; several hundred realistic salts per shard on the same 64 units (no two assignment vectors may coincide); whole-number weights summing to 1e8..1e20, weights around 1e-12, salts sharing their first 32..255 characters, repeated labels, canonical time-ordered / counter UUIDs and UUID objects.'
)
ASSUMPTIONS = [
    "significance 1e-9 per test; < 10^4 tests per run: a correct implementation alarms with probability < 1e-5 per run; "
    "the seed replays any alarm",
    "cells with expected count < 5 are merged with a neighbour; a configuration left with < 2 cells is not counted",
]
QUICK_SHARDS = 4
MIN_NONTRIVIAL = {"quick": 100, "thorough": 800}
LOG_ALPHA = math.log(1e-9)

VECTORS = [["1", "1"], ["1", "2", "3"], ["1", "9"], ["1", "99"], ["1"] * 10, ["0.5", "0.25", "0.25"], ["3.4", "5", "3"],
           ["1", "0", "1"], ["2", "0", "0", "1"], ["1"] * 32, ["5", "15", "80"],
           ["3000000000", "3000000000"], ["1000000000", "1500000000", "2500000000"], ["100000000", "100000000", "50000000"],
           ["40000000000000000000", "60000000000000000000"], ["0.0000000000004", "0.0000000000012"],
           ["0.0000000000000000025", "0.0000000000000000025", "0.000000000000000005"]]
SALT_PAIRS = [(None, "s1"), ("", "x"), ("exp_a", "exp_b"), ("exp1", "exp2"), ("é", "è"), ("salt", "salt2"), ("a", "aa"),
              ("日本", "日本語"), ("2024-01", "2024-02"), ("A", "a"),
              ("checkout-page-redesign-2026-q4-holdout-wave-1", "checkout-page-redesign-2026-q4-holdout-wave-2"),
              ("x" * 64 + "a", "x" * 64 + "b"), ("team/experiment/" * 20 + "1", "team/experiment/" * 20 + "2"), ("s" * 255 + "1", "s" * 256)]


def family(name, rnd, n, offset):
    if name == "sequential-int":
        return [dict(uid=offset + i) for i in range(n)]
    if name == "sequential-str":
        return [dict(uid=str(offset + i)) for i in range(n)]
    if name == "zero-padded":
        return [dict(uid="%010d" % (offset % 10**9 + i)) for i in range(n)]
    if name == "uuid-random":
        return [dict(uid="%08x-%04x-4%03x-%04x-%012x" % (rnd.getrandbits(32), rnd.getrandbits(16), rnd.getrandbits(12),
                                                        0x8000 | rnd.getrandbits(14), rnd.getrandbits(48))) for _ in range(n)]
    if name == "uuid-time-ordered":
        # canonical 8-4-4-4-12 UUIDv7: 48-bit millisecond timestamp first, so the leading 32 bits hardly move
        base = 0x018F00000000 + offset % 10**6
        return [dict(uid="%08x-%04x-7%03x-%04x-%012x" % ((base + i // 16) >> 16, (base + i // 16) & 0xFFFF, i % 4096, 0x8000 | (i * 7) % 0x3FFF,
                                                          0xABCDEF000000 + i)) for i in range(n)]
    if name == "uuid-counter":
        import uuid

        return [dict(uid=str(uuid.UUID(int=offset + i))) for i in range(n)]
    if name == "uuid-objects":
        import uuid

        return [dict(uid=uuid.UUID(int=(offset + i) * 2**64 + i)) for i in range(n)]
    if name == "email":
        firsts = ["anna", "bob", "carla", "dmitri", "eve", "farid", "gus", "hana"]
        hosts = ["example.com", "mail.example.org", "corp.example.net"]
        return [dict(uid=f"{firsts[i % 8]}.user{offset + i}@{hosts[i % 3]}") for i in range(n)]
    if name == "hex-session":
        return [dict(uid="%032x" % rnd.getrandbits(128)) for _ in range(n)]
    if name == "two-field":
        return [dict(uid=offset + i // 4, region=["eu", "us", "apac", "latam"][i % 4]) for i in range(n)]
    if name == "three-field":
        return [dict(region=["eu", "us"][i % 2], uid=offset + i // 6, device=["ios", "android", "web"][(i // 2) % 3]) for i in range(n)]
    if name == "mirrored-fields":
        # personal accounts: the account id equals the user id
        return [dict(uid=offset + i, account=offset + i) for i in range(n)]
    if name == "common-prefix":
        return [dict(uid=f"tenant-000042/customer/{offset + i:012d}") for i in range(n)]
    if name == "float-ids":
        return [dict(uid=float(offset + i) + 0.5) for i in range(n)]
    raise ValueError(name)


BIG_OFFSET_FAMILIES = {"mirrored-fields", "sequential-int", "sequential-str", "two-field", "three-field", "email", "common-prefix"}
FAMILIES = ["sequential-int", "sequential-str", "zero-padded", "uuid-random", "uuid-time-ordered", "uuid-counter", "uuid-objects", "email", "hex-session",
            "two-field", "three-field", "common-prefix", "float-ids", "mirrored-fields"]


def program(vec, salt, fields, shape="plain"):
    s = f"salt: {render_lit(Lit(salt, salt))} " if salt is not None else ""
    groups = ", ".join(f"{i} weighted {w}" for i, w in enumerate(vec))
    if shape == "repeated-labels":
        # control / treatment / control: a label's share is the sum of its weights
        body = "return " + ", ".join(f"{i % 2} weighted {w}" for i, w in enumerate(vec))
        return f"def pop {{ {s}splitters: {', '.join(fields)} {body} }}"
    if shape == "plain":
        body = f"return {groups}"
    elif shape == "splitter-in-condition":
        # the splitter field is also read by the routing: still one population, one weight vector
        body = f'if {fields[-1]} != "__no_such_unit__" {{ return {groups} }} else {{ return {groups} }}'
    else:  # "condition-field": routing on a constant extra field
        body = f'if tier == "std" {{ return {groups} }} else {{ return {groups} }}'
    return f"def pop {{ {s}splitters: {', '.join(fields)} {body} }}"


def assign(im, text, pop, built=None):
    c = built or im.construct(text)
    if c[0] != "ok":
        return None, c
    ev = c[1]
    out = []
    for env in pop:
        r = im.call(ev, env)
        if r[0] != "ok" or not isinstance(r[1], int):
            return None, r
        out.append(r[1])
    return out, None


def run(ctx):
    im = impl()
    rnd = ctx.rnd
    N = 20000 if ctx.quick() else 100000
    nconf = ctx.n(160, 1400)
    worst = 0.0
    for ci in range(nconf):
        fam = FAMILIES[(ci * max(1, ctx.nshards) + ctx.shard) % len(FAMILIES)] if ci < 2 * len(FAMILIES) else rnd.choice(FAMILIES)
        offset = rnd.choice([0, 1, 1000, 10**6, 10**9, 10**12, rnd.randint(0, 10**12)])
        if fam in BIG_OFFSET_FAMILIES and rnd.random() < 0.45:
            # snowflake-style / 64-bit ids: beyond 2^53, where a detour through float would merge neighbours
            offset = rnd.choice([2**53, 2**60, 17 * 10**17 + rnd.randint(0, 10**15), 2**63 - 50000, 2**64, 10**20, 10**30])
        pop = family(fam, rnd, N, offset)
        fields = sorted(pop[0])
        vec = VECTORS[ci % len(VECTORS)] if rnd.random() < 0.7 else rnd.choice(VECTORS)
        s1, s2 = rnd.choice(SALT_PAIRS)
        if rnd.random() < 0.5:
            s1, s2 = s2, s1
        ws = [frac(w) for w in vec]
        W = sum(ws)
        results = {}
        shape = rnd.choice(["plain", "plain", "splitter-in-condition", "condition-field", "repeated-labels"])
        if shape == "repeated-labels":
            if len(vec) < 3:
                shape = "plain"
            else:
                ws = [sum(ws[0::2]), sum(ws[1::2])]  # what the two labels are owed
                W = sum(ws)
        if shape == "condition-field":
            pop = [dict(e, tier="std") for e in pop]
        ctx.seen("program_shapes", shape)
        # both evaluators are built before either is used, as in a service that hosts several experiments
        built = {salt: im.construct(program(vec, salt, fields, shape)) for salt in (s1, s2)}
        reuse = ci % 3 == 2
        if reuse and built[s1][0] == "ok":
            # a long-lived evaluator whose experiment is updated to the other salt (after it has served the population)
            built[s2] = None
        ctx.seen("second_salt_via", "recompile of the first evaluator" if reuse else "a second evaluator")
        for salt in (s1, s2):
            text = program(vec, salt, fields, shape)
            if built[salt] is None:
                try:
                    built[s1][1].recompile(text)
                    built[salt] = built[s1]
                except Exception as e:  # noqa: BLE001
                    built[salt] = ("exc", type(e).__name__, str(e)[:100])
            got, err = assign(im, text, pop, built[salt])
            ctx.evaluated(len(pop))
            if got is None:
                ctx.violation("evaluation-failed", dict(text=text, family=fam, error=err), mechanism="C04/evaluation-failed")
                break
            results[salt] = got
            counts = [0] * len(ws)
            for g in got:
                counts[g] += 1
            expected = [float(w / W) * len(pop) for w in ws]
            res, zero_hits = stats.gof(counts, expected)
            conf = dict(family=fam, offset=offset, salt=salt, weights=vec, n=len(pop), shape=shape)
            if zero_hits:
                ctx.violation("zero-weight-group-observed", dict(conf, counts=counts), mechanism="C04/proportions-off")
                break
            if res is None:
                ctx.count("gof/inconclusive-too-few-cells")
                continue
            stat, df, logp = res
            ctx.nontrivial("gof", fam, offset, salt, tuple(vec))
            ctx.count("gof/tests")
            worst = min(worst, logp)
            if logp < LOG_ALPHA:
                ctx.violation("proportions-inconsistent-with-weights",
                              dict(conf, counts=counts, expected=[round(e, 1) for e in expected], chi2=stat, df=df, log_p=logp,
                                   text=text, seed=ctx.base_seed),
                              mechanism="C04/proportions-off")
                break
        else:
            a, b = results[s1], results[s2]
            g = len(ws)
            table = [[0] * g for _ in range(g)]
            for x, y in zip(a, b):
                table[x][y] += 1
            res = stats.independence(table)
            conf = dict(family=fam, offset=offset, salts=[s1, s2], weights=vec, n=len(pop), shape=shape)
            if res is None:
                ctx.count("independence/inconclusive-too-few-cells")
            else:
                stat, df, logp = res
                ctx.nontrivial("indep", fam, offset, s1, s2, tuple(vec))
                ctx.count("independence/tests")
                worst = min(worst, logp)
                if logp < LOG_ALPHA:
                    ctx.violation("assignments-under-two-salts-dependent",
                                  dict(conf, table=table if g <= 4 else "omitted", chi2=stat, df=df, log_p=logp, seed=ctx.base_seed,
                                       identical_fraction=sum(1 for x, y in zip(a, b) if x == y) / len(a)),
                                  mechanism="C04/salts-not-independent")
            ctx.seen("families", fam)
            ctx.seen("salt_pairs", repr((s1, s2)))
        if ci < 1:
            ctx.sample(dict(family=fam, first_ids=pop[:3], text=program(vec, s1, fields), n=len(pop)))
    ctx.note("smallest_log_p_seen", worst)
    rare_groups(ctx, im, rnd, N)
    many_salts(ctx, im, rnd)


RARE_VECTORS = [["1", "499999", "500000"], ["99999", "1"], ["1", "24999", "25000"], ["500000", "1", "499999"], ["0.00001", "1"],
                ["1000000", "3", "1000000"]]


def rare_groups(ctx, im, rnd, N):
    """hold-back groups with a share of 1e-6 .. 2e-5: chi-square merges such a cell away, so its count gets an exact binomial
    test (both tails, 1e-9); a position snapped to a coarse grid (1/100, 1/10 000) gives such a group nothing or far too much"""
    n = N * 5
    for ri in range(2 if ctx.quick() else 6):  # per shard
        vec = RARE_VECTORS[(ri + ctx.shard) % len(RARE_VECTORS)]
        fam = rnd.choice(["sequential-int", "sequential-str", "uuid-random", "email", "hex-session"])
        offset = rnd.choice([0, 10**6, 10**9, rnd.randint(0, 10**12)])
        salt = rnd.choice([None, "holdback", "é", "exp_%d" % rnd.randint(0, 999)])
        pop = family(fam, rnd, n, offset)
        text = program(vec, salt, sorted(pop[0]))
        got, err = assign(im, text, pop)
        ctx.evaluated(n)
        if got is None:
            ctx.violation("evaluation-failed", dict(text=text, family=fam, error=err), mechanism="C04/evaluation-failed")
            return
        ws = [frac(w) for w in vec]
        W = sum(ws)
        for gi, w in enumerate(ws):
            p = float(w / W)
            if p > 1e-3:
                continue
            k = sum(1 for g in got if g == gi)
            lo, hi = stats.binom_log_tails(k, n, p)
            ctx.count("rare-group/tests")
            ctx.nontrivial("rare", fam, offset, salt, tuple(vec), gi)
            if min(lo, hi) < LOG_ALPHA:
                ctx.violation("rare-group-share-off", dict(family=fam, offset=offset, salt=salt, weights=vec, n=n, group=gi, share=p,
                                                           expected=round(n * p, 3), observed=k, log_p_lower=lo, log_p_upper=hi, text=text,
                                                           seed=ctx.base_seed), mechanism="C04/proportions-off")
                return


def many_salts(ctx, im, rnd):
    """several hundred realistic salts on the same 64 units (two groups 1:1): under independent salts two assignment vectors
    coincide with probability 2^-64 per pair; salts folded into a small tag space (16 bits, first characters, length ...) collide"""
    teams = ["pricing", "search", "checkout", "email", "onboarding", "growth", "ads", "recs"]
    k = 600 if ctx.quick() else 2500  # per shard (each shard has its own salt list)
    tag = lambda: rnd.choice(["btn", "copy", "rank", "flow", "s%d" % ctx.shard])  # noqa: E731
    families = {
        "plain": lambda i: "%s_%s_v%d" % (rnd.choice(teams), tag(), i),
        # salts that look like the things people paste: tracker URLs, ticket references with comment-looking punctuation,
        # names with runs of blanks - the part that tells two of them apart comes after the '//', '/*' or blank run
        "url": lambda i: "https://exp.example.com/%s/%s/%d" % (teams[ctx.shard % len(teams)], "flow", i),
        "commented": lambda i: "%s /* %s */ rev %d" % (teams[ctx.shard % len(teams)], "approved", i),
        "spaced": lambda i: "%s  %s%s" % (teams[ctx.shard % len(teams)], " " * (i % 7), i // 7),
    }
    units = [dict(uid=u) for u in list(range(1000, 1032)) + ["user-%d" % i for i in range(32)]]
    seen = {}
    salts = []
    for fi, (fam, make) in enumerate(families.items()):
        for via in ("fresh", "recompile"):
            # "recompile": one long-lived evaluator is moved from salt to salt, as a service following a config store does
            share = k // 2 if fam == "plain" and via == "fresh" else k // 10
            mine = [make(i) for i in range(share)]
            salts += mine
            holder = None
            for salt in mine:
                text = program(["1", "1"], salt, ["uid"])
                if via == "recompile" and holder is not None:
                    try:
                        holder[1].recompile(text)
                        got, err = assign(im, text, units, holder)
                    except Exception as e:  # noqa: BLE001
                        got, err = None, f"recompile raised {type(e).__name__}: {e}"[:200]
                else:
                    holder = im.construct(text)
                    got, err = assign(im, text, units, holder) if holder[0] == "ok" else (None, str(holder[1:])[:200])
                ctx.evaluated(len(units))
                ctx.count(f"many-salts/{fam}/{via}")
                if got is None:
                    ctx.violation("evaluation-failed", dict(text=text, error=err, via=via), mechanism="C04/evaluation-failed")
                    return
                sig = tuple(got)
                other = seen.setdefault(sig, salt)
                if other != salt:
                    ctx.violation("assignments-under-two-salts-identical", dict(salts=[other, salt], units=len(units), weights=["1", "1"],
                                                                                identical_fraction=1.0, via=via, family=fam),
                                  mechanism="C04/salts-not-independent")
                    return
    ctx.count("many-salts/salts", len(salts))
    ctx.count("many-salts/pairs-compared", len(salts) * (len(salts) - 1) // 2)
    ctx.nontrivial("many-salts", ctx.shard, len(salts))


def replay(ctx, kind, w):
    import random

    im = impl()
    rnd = random.Random(int(w.get("seed", 0)))
    if kind == "assignments-under-two-salts-identical":
        units = [dict(uid=u) for u in list(range(1000, 1032)) + ["user-%d" % i for i in range(32)]]
        a, b = (assign(im, program(["1", "1"], s, ["uid"]), units)[0] for s in w["salts"])
        if a is None or a == b:
            ctx.violation(kind, dict(w), mechanism="C04/salts-not-independent")
        return
    if kind == "rare-group-share-off":
        rare_groups(ctx, im, rnd, w["n"] // 5)
        return
    pop = family(w["family"], rnd, w["n"], w["offset"])
    fields = sorted(pop[0])
    vec = w["weights"]
    ws = [frac(x) for x in vec]
    W = sum(ws)
    salts = w.get("salts") or [w.get("salt")]
    res = {}
    for s in salts:
        shape = w.get("shape", "plain")
        if shape == "condition-field":
            pop = [dict(e, tier="std") for e in pop]
        got, err = assign(im, program(vec, s, [f for f in fields if f != "tier"], shape), pop)
        if got is None:
            ctx.violation("evaluation-failed", dict(error=err), mechanism="C04/evaluation-failed")
            return
        res[s] = got
        counts = [0] * len(vec)
        for g in got:
            counts[g] += 1
        r, zero = stats.gof(counts, [float(x / W) * len(pop) for x in ws])
        if zero or (r and r[2] < LOG_ALPHA):
            ctx.violation("proportions-inconsistent-with-weights", dict(w, counts=counts), mechanism="C04/proportions-off")
            return
    if len(salts) == 2:
        g = len(vec)
        table = [[0] * g for _ in range(g)]
        for x, y in zip(res[salts[0]], res[salts[1]]):
            table[x][y] += 1
        r = stats.independence(table)
        if r and r[2] < LOG_ALPHA:
            ctx.violation("assignments-under-two-salts-dependent", dict(w), mechanism="C04/salts-not-independent")
