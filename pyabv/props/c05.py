"""C05 - literals reach run time with their exact value and type.

One micro-program per (literal, position); the oracle is the literal as the *reference lexer*
read it, compared with Python == and type().  Inputs: the literal itself, minimally different
values of the same kind, and the look-alike of another kind.
"""

from __future__ import annotations

import math
import re

from pyabv.gen import literals as L
from pyabv.impl import ProbaProbe, impl
from pyabv.props.common import judge, ref_parse, same_value
from pyabv.ref import bucket
from pyabv.ref.parse import Lit

RULE = (
    "cases = (literal, position, input) triples: position in {group definition (alone / after a zero-weight group), "
    "left operand, right operand, tuple member, nested tuple member, salt}; operators == != in 'not in' for "
    "cross-kind look-alikes and all eight for same-kind neighbours; inputs = the literal, nearest neighbours "
    "(L+-1, nextafter, L+'x', L[:-1], case flip), look-alikes (\"02134\" vs 2134 vs 2134.0, str(L), float(L), equal "
    "list for a tuple). distinct_nontrivial = distinct triples whose literal is not a plain [a-z]+ word or an int "
    "below 2^31."
)
ASSUMPTIONS = [
    "a string literal cannot contain LF or its own delimiting quote (not expressible); decimals overflowing a double "
    "and integers beyond 4300 digits are out of domain",
    "the value of a decimal literal is float(text); of an integer literal int(text); '-' applies to the number",
]
QUICK_SHARDS = 4
MIN_NONTRIVIAL = {"quick": 4000, "thorough": 100000}

T = '{ return "T" weighted 1 }'
F = '{ return "F" weighted 1 }'


def lit_inputs(lit: Lit):
    v = lit.value
    out = [v]
    if isinstance(v, str):
        out += [v + "x", v[:-1] if v else "x", v.swapcase(), v + " ", " " + v, v.strip()]
        for conv in (int, float):
            try:
                out.append(conv(v))
            except (ValueError, OverflowError):
                pass
        try:
            f = float(v)
            if math.isfinite(f) and f == int(f):
                out.append(int(f))
        except (ValueError, OverflowError):
            pass
    elif isinstance(v, int):
        out += [v + 1, v - 1, str(v), lit.text, -v]
        try:
            out.append(float(v))
        except OverflowError:
            pass
    else:
        out += [math.nextafter(v, math.inf), math.nextafter(v, -math.inf), str(v), lit.text, -v]
        if math.isfinite(v) and v == int(v):
            out.append(int(v))
    res, seen = [], set()
    for x in out:
        k = (type(x).__name__, repr(x))
        if k not in seen:
            seen.add(k)
            res.append(x)
    return res


def plain(lit):
    v = lit.value
    if isinstance(v, str):
        return bool(re.fullmatch(r"[a-z]+", v))
    if isinstance(v, int):
        return 0 <= v < 2**31 and lit.text == str(v)
    return False


def programs_for(lit):
    """yields (position, operator, text, [env...])"""
    src = L.render_lit(lit)
    ins = lit_inputs(lit)
    envs = [dict(f=x) for x in ins]
    same_kind = [x for x in ins if type(x) is type(lit.value) or (not isinstance(lit.value, str) and isinstance(x, (int, float)))]
    for op in ("==", "!="):
        yield "right-operand", op, f"def m {{ if f {op} {src} {T} else {F} }}", envs
        yield "left-operand", op, f"def m {{ if {src} {op} f {T} else {F} }}", envs
    for op in (">", "<", ">=", "<="):
        ordered = [dict(f=x) for x in same_kind if x == x]
        yield "right-operand", op, f"def m {{ if f {op} {src} {T} else {F} }}", ordered
        yield "left-operand", op, f"def m {{ if {src} {op} f {T} else {F} }}", ordered
    other = '"other"' if isinstance(lit.value, str) else "77"
    for op in ("in", "not in"):
        yield "tuple-member", op, f"def m {{ if f {op} ({other}, {src}) {T} else {F} }}", envs
        yield "single-tuple", op, f"def m {{ if f {op} ({src}) {T} else {F} }}", envs
        nested_envs = []
        second = "z" if isinstance(lit.value, str) else 5
        for x in ins:
            nested_envs += [dict(f=(x, second)), dict(f=[x, second]), dict(f=(x,)), dict(f=x)]
        second_src = '"z"' if isinstance(lit.value, str) else "5"
        yield "nested-tuple-member", op, f"def m {{ if f {op} (({src}, {second_src}), (1, 2)) {T} else {F} }}", nested_envs
        dup_envs = []
        for x in ins:
            dup_envs += [dict(f=(x, x)), dict(f=(x,)), dict(f=(x, x, x)), dict(f=x)]
        yield "nested-tuple-repeated-member", op, f"def m {{ if f {op} (({src}, {src}), (1, 1), {src}, {src}) {T} else {F} }}", dup_envs
    if isinstance(lit.value, str):
        # a bare string right of `in` is that string (Python's substring test), not a one-member tuple
        v = lit.value
        subs = [v, v[:1], v[1:], v[:-1], "", v + "x", v[len(v) // 2:], "\x00"]
        for op in ("in", "not in"):
            yield "bare-string-right-of-in", op, f"def m {{ if f {op} {src} {T} else {F} }}", [dict(f=x) for x in subs]
        # a tuple of (key, value) pairs, three levels deep: nothing in there is anything but data
        pairs_envs = []
        for x in ins:
            pairs_envs += [dict(f=((x, "gold"), ("region", "emea"))), dict(f=((x, "gold"),)), dict(f=(x, "gold")), dict(f="gold"), dict(f=x)]
        yield "pair-tuple-member", "in", f'def m {{ if f in ((({src}, "gold"), ("region", "emea")), 7) {T} else {F} }}', pairs_envs
        yield "pair-tuple-equality", "==", f'def m {{ if f == (({src}, "gold"), ("region", "emea")) {T} else {F} }}', pairs_envs
    yield "tuple-equality", "==", f"def m {{ if f == ({src}, 1) {T} else {F} }}", [dict(f=(x, 1)) for x in ins] + [dict(f=[lit.value, 1])]


def check_group_literal(ctx, im, lit, layout):
    src = L.render_lit(lit)
    if layout == "alone":
        text = f"def g {{ splitters: u return {src} weighted 1 }}"
    elif layout == "after-zero":
        text = f'def g {{ splitters: u return "zero" weighted 0, {src} weighted 2.5 }}'
    else:
        text = f'def g {{ if u == 1 {{ return "x" weighted 1 }} else {{ return {src} weighted 1, {src} weighted 3 }} }}'
    ctx.evaluated()
    nt = not plain(lit)
    if nt:
        ctx.nontrivial(lit.text, type(lit.value).__name__, "group", layout)
    c = im.construct(text)
    if c[0] != "ok":
        ctx.violation("construct-failed", dict(text=text, literal=lit.value, error=c[1:]), mechanism="C05/construct-failed")
        return
    out = im.call(c[1], dict(u=7))
    if out[0] != "ok" or not same_value(out[1], lit.value):
        ctx.violation("group-literal-altered", dict(text=text, literal=lit.value, literal_type=type(lit.value).__name__,
                                                    got=out, got_type=type(out[1]).__name__ if out[0] == "ok" else None),
                      mechanism="C05/group-literal-altered")
    else:
        ctx.count("group/" + type(lit.value).__name__ + "-preserved")


def check_twin_groups(ctx, im, lit):
    """the literal next to a literal that merely compares equal (1 / 1.0 / "1"), and next to itself: every position of the
    return statement must hand back its own literal, value and type"""
    from fractions import Fraction

    v = lit.value
    if isinstance(v, str):
        twins = [lit, lit]
        try:
            twins.append(L.num_lit(v)) if v.isdigit() and v.isascii() else None
        except ValueError:
            pass
    elif isinstance(v, int):
        try:
            f = float(v)
        except OverflowError:
            return
        if f != v:
            return
        twins = [Lit(f, repr(f) if "e" not in repr(f) else None), L.str_lit(str(v))]
        if twins[0].text is None or twins[0].text.startswith("-") != lit.text.startswith("-"):
            return
    else:
        if not (math.isfinite(v) and v == int(v) and abs(v) < 2**53):
            return
        twins = [Lit(int(v), str(int(v))) if not (v == 0 and lit.text.startswith("-")) else Lit(0, "0"), L.str_lit(lit.text)]
    labels = [lit] + twins + [lit]
    weights = [1, 1, 2, 1][: len(labels)] if len(labels) == 4 else [1] * len(labels)
    groups = ", ".join(f"{L.render_lit(lb)} weighted {w}" for lb, w in zip(labels, weights))
    text = f"def tw {{ splitters: u return {groups} }}"
    st = ref_parse(text)
    if st[0] != "ok":
        ctx.count("harness/reference-did-not-accept")
        return
    c = im.construct(text)
    ctx.evaluated()
    if c[0] != "ok":
        ctx.violation("construct-failed", dict(text=text, literal=v, error=c[1:]), mechanism="C05/construct-failed")
        return
    W = [Fraction(w) for w in weights]
    seen = set()
    for i in range(48):
        u = f"t{i}"
        out = im.call(c[1], dict(u=u))
        ctx.evaluated()
        want = labels[bucket.exact_index(W, bucket.position(None, ["u"], dict(u=u)))].value
        seen.add((type(want).__name__, repr(want)))
        if out[0] != "ok" or not same_value(out[1], want):
            ctx.violation("group-literal-altered", dict(text=text, literal=v, u=u, expected=want, expected_type=type(want).__name__,
                                                        got=out, got_type=type(out[1]).__name__ if out[0] == "ok" else None, layout="twins"),
                          mechanism="C05/group-literal-altered")
            return
    ctx.nontrivial(lit.text, type(v).__name__, "group", "twins")
    ctx.count("group/twin-statements-ok")


def check_salt(ctx, im, s):
    src = L.render_lit(Lit(s, s))
    text = f'def sl {{ salt: {src} splitters: uid return "a" weighted 1, "b" weighted 1, "c" weighted 2 }}'
    ctx.evaluated()
    c = im.construct(text)
    if c[0] != "ok":
        ctx.violation("construct-failed", dict(text=text, salt=s, error=c[1:]), mechanism="C05/construct-failed")
        return
    labels = ["a", "b", "c"]
    weights = [1, 1, 2]
    from fractions import Fraction

    W = [Fraction(w) for w in weights]
    with ProbaProbe() as probe:
        for i in range(48):
            uid = f"u{i}" if i % 3 else i
            out = im.call(c[1], dict(uid=uid))
            k = bucket.position(s, ["uid"], dict(uid=uid))
            want = labels[bucket.exact_index(W, k)]
            ctx.evaluated()
            if out != ("ok", want):
                ctx.violation("salt-altered", dict(text=text, salt=s, uid=uid, expected=want, got=out,
                                                   hashed_key=probe.last_key), mechanism="C05/salt-altered")
                return
            if probe.calls and isinstance(probe.last_key, str) and probe.last_key != s + str(uid):
                ctx.violation("salt-altered-in-key", dict(text=text, salt=s, uid=uid, hashed_key=probe.last_key),
                              mechanism="C05/salt-altered")
                return
        ctx.layer("salt-key-probe", "observed" if probe.calls else "unreachable", hits=probe.calls)
    if not re.fullmatch(r"[a-z0-9_]*", s):
        ctx.nontrivial(s, "salt")
    ctx.count("salt/preserved")


def run_literal(ctx, im, lit):
    for layout in ("alone", "after-zero", "in-else"):
        check_group_literal(ctx, im, lit, layout)
    check_twin_groups(ctx, im, lit)
    nt = not plain(lit)
    for pos, op, text, envs in programs_for(lit):
        st = ref_parse(text)
        if st[0] != "ok":
            ctx.count("harness/reference-did-not-accept")
            ctx.note("harness_rejected_example", dict(text=text, why=st[1]))
            continue
        c = im.construct(text)
        if c[0] != "ok":
            ctx.evaluated()
            ctx.violation("construct-failed", dict(text=text, literal=lit.value, error=c[1:]), mechanism="C05/construct-failed")
            continue
        for env in envs:
            out = im.call(c[1], env)
            verdict, detail = judge(st[1], env, out)
            ctx.evaluated()
            if verdict == "skip":
                ctx.count("skipped/not-type-compatible")
                continue
            if nt:
                ctx.nontrivial(lit.text, type(lit.value).__name__, pos, op, type(env["f"]).__name__, repr(env["f"]))
            if verdict != "ok":
                ctx.violation("literal-compared-wrongly", dict(text=text, env=env, literal=lit.value, position=pos,
                                                               operator=op, verdict=verdict, detail=detail),
                              mechanism="C05/" + ("call-raised" if verdict == "exception" else "wrong-branch"))
                break
            ctx.count(f"{pos}/{op}")


def literal_pool(ctx):
    rnd = ctx.rnd
    pool = []
    for s in L.TRICKY_STRINGS + L.PLAIN_WORDS:
        pool.append(L.str_lit(s))
    for t in L.NUM_TEXTS_INT + L.NUM_TEXTS_FLOAT:
        pool.append(L.num_lit(t))
        pool.append(L.num_lit(t, neg=True))
    extra = ctx.n(800, 80000)
    for i in range(extra):
        r = rnd.random()
        if r < 0.4:
            pool.append(L.str_lit(L.random_string(rnd, 16)))
        elif r < 0.6:
            pool.append(L.str_lit(L.random_unicode_string(rnd, 12 if ctx.quick() else 200)))
        elif r < 0.8:
            digits = "".join(rnd.choice("0123456789") for _ in range(rnd.randint(1, 40)))
            pool.append(L.num_lit(digits, neg=rnd.random() < 0.3))
        else:
            a = "".join(rnd.choice("0123456789") for _ in range(rnd.randint(1, 12)))
            b = "".join(rnd.choice("0123456789") for _ in range(rnd.randint(1, 9)))
            pool.append(L.num_lit(a + "." + b, neg=rnd.random() < 0.3))
    return pool


def run(ctx):
    im = impl()
    fixed = len(L.TRICKY_STRINGS + L.PLAIN_WORDS) + 2 * len(L.NUM_TEXTS_INT + L.NUM_TEXTS_FLOAT)
    pool = literal_pool(ctx)
    for i, lit in enumerate(pool):
        # the fixed part of the pool is partitioned over the shards, the random part is per shard
        if i < fixed and not ctx.mine(i):
            continue
        run_literal(ctx, im, lit)
        if isinstance(lit.value, str):
            check_salt(ctx, im, lit.value)
        ctx.seen("literal_types", type(lit.value).__name__)
    ctx.sample(dict(literal=pool[ctx.shard % len(pool)].value, programs=[t for _, _, t, _ in programs_for(pool[ctx.shard % len(pool)])][:3]))


def replay(ctx, kind, w):
    im = impl()
    text = w["text"]
    st = ref_parse(text)
    c = im.construct(text)
    if c[0] != "ok":
        ctx.violation("construct-failed", dict(text=text, error=c[1:]), mechanism="C05/construct-failed")
        return
    if kind == "group-literal-altered":
        out = im.call(c[1], dict(u=7))
        if out[0] != "ok" or not same_value(out[1], w["literal"]):
            ctx.violation(kind, dict(text=text, got=out), mechanism="C05/group-literal-altered")
    elif kind.startswith("salt"):
        check_salt(ctx, im, w["salt"])
    elif "env" in w and st[0] == "ok":
        verdict, detail = judge(st[1], w["env"], im.call(c[1], w["env"]))
        if verdict not in ("ok", "skip"):
            ctx.violation(kind, dict(text=text, env=w["env"], verdict=verdict, detail=detail), mechanism="C05/replayed")
