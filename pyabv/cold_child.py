"""Cold-start child of C17: a fresh interpreter whose very first compilations happen in N threads at once (released
by a barrier).  Lazily initialised shared state (tables built on first use, caches filled on first call) is only ever
raced in this situation - a process that has already compiled something sequentially can never see it.

usage: python -m pyabv.cold_child <nthreads> <out.json>     (sources and panel come from pyabv.props.c17)"""

import json
import sys
import threading


def main():
    nthreads, out = int(sys.argv[1]), sys.argv[2]
    sys.setswitchinterval(1e-6)
    if "--fast-clock" in sys.argv:
        # the host's clocks run 3600 times faster (patched before the repository is imported, so `from time import ..`
        # bindings see it too): nothing about a construction may depend on how much wall-clock time it seems to take
        import time

        for n in ("monotonic", "perf_counter", "process_time"):
            r, rn = getattr(time, n), getattr(time, n + "_ns")
            setattr(time, n, (lambda f: lambda: f() * 3600.0)(r))
            setattr(time, n + "_ns", (lambda f: lambda: f() * 3600)(rn))
    from pyabv.impl import impl
    from pyabv.props.c17 import PANEL, SOURCES
    from pyabv.run import assert_tree, jsonable

    assert_tree()
    im = impl()  # imports the repository's modules; nothing has been lexed, parsed or compiled yet
    barrier = threading.Barrier(nthreads)
    results = [None] * nthreads

    def work(i):
        si = i % len(SOURCES)
        barrier.wait()
        try:
            c = im.construct(SOURCES[si])
            if c[0] != "ok":
                results[i] = {"source": si, "construct": jsonable(list(c[1:]))}
                return
            results[i] = {"source": si, "panel": jsonable([im.call(c[1], e) for e in PANEL])}
        except BaseException as e:  # noqa: BLE001
            results[i] = {"source": si, "raised": [type(e).__name__, str(e)[:160]]}

    ths = [threading.Thread(target=work, args=(i,), daemon=True) for i in range(nthreads)]
    for t in ths:
        t.start()
    for t in ths:
        t.join(120)
    with open(out, "w", encoding="ascii") as f:
        json.dump(results, f, ensure_ascii=True)


if __name__ == "__main__":
    main()
