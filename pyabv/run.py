"""Tiers, seeds, shards, verdicts, evidence, replay and known findings.

Parent process (``python -m pyabv <ID> quick|thorough``): never imports the repository; it
fans the property's workload out into shard subprocesses (each a fresh interpreter importing
the working tree), merges what the shards observed, applies the known-findings file, writes
``evidence/<ID>.json`` and prints the verdict lines.

Shard process (``python -m pyabv --shard ...``): runs ``props.<id>.run(ctx)`` and dumps the
context (counters, distinct-case hashes, samples, violations) as JSON.

Verdicts are three-valued: exit 0 held, exit 1 violated (``VIOLATION property=.. replay=..``),
exit 2 inconclusive (``INCONCLUSIVE property=.. reason=..``).
"""

from __future__ import annotations

import hashlib
import importlib
import json
import os
import random
import subprocess
import sys
import time
import traceback

HOME = os.environ.get("PYABV_HOME", os.path.dirname(os.path.dirname(os.path.abspath(__file__))))
REPO = os.environ.get("PYABV_REPO", "/repo")
OUT = os.environ.get("PYABV_OUT", HOME)  # evidence/ and replays/ live here (redirected for scratch-tree runs)
PYTHON = os.environ.get("PYABV_PYTHON", "/venv/bin/python")
ALL_IDS = ["C%02d" % i for i in range(1, 19)]
MAX_HASHES_PER_SHARD = 400_000
MAX_VIOLATIONS_KEPT = 120


def h64(*parts) -> int:
    m = hashlib.blake2b(digest_size=8)
    for p in parts:
        m.update(repr(p).encode("utf-8", "surrogatepass"))
        m.update(b"\x00")
    return int.from_bytes(m.digest(), "big")


def derive_seed(seed: int, pid: str, shard: int) -> int:
    d = hashlib.sha256(f"{seed}/{pid}/{shard}".encode()).digest()
    return int.from_bytes(d[:8], "big")


def jsonable(x, depth=0):
    """Best-effort conversion of witnesses to JSON (replay files must round-trip: values that
    JSON cannot carry are encoded as tagged dicts understood by ``unjson``)."""
    if depth > 12:
        return repr(x)
    if x is None or isinstance(x, (bool, str)):
        if isinstance(x, str):
            try:
                x.encode("utf-8")
            except UnicodeEncodeError:
                return {"$surrogate": x.encode("utf-8", "surrogatepass").hex()}
        return x
    if isinstance(x, int):
        if abs(x) > 2**53:
            return {"$int": str(x)}
        return x
    if isinstance(x, float):
        if x != x or x in (float("inf"), float("-inf")) or (x == 0.0 and str(x) == "-0.0"):
            return {"$float": repr(x)}
        return x
    if isinstance(x, tuple):
        return {"$tuple": [jsonable(v, depth + 1) for v in x]}
    if isinstance(x, (list, set, frozenset)):
        seq = sorted(x, key=repr) if isinstance(x, (set, frozenset)) else x
        return [jsonable(v, depth + 1) for v in seq]
    if isinstance(x, dict):
        return {str(k): jsonable(v, depth + 1) for k, v in x.items()}
    if isinstance(x, bytes):
        return {"$bytes": x.hex()}
    if type(x).__name__ == "Decimal" and type(x).__module__ == "decimal":
        return {"$decimal": str(x)}
    if type(x).__name__ == "Fraction" and type(x).__module__ == "fractions":
        return {"$fraction": [str(x.numerator), str(x.denominator)]}
    return {"$repr": repr(x)}


def unjson(x):
    if isinstance(x, list):
        return [unjson(v) for v in x]
    if isinstance(x, dict):
        if len(x) == 1:
            (k, v), = x.items()
            if k == "$int":
                return int(v)
            if k == "$float":
                return float(v)
            if k == "$tuple":
                return tuple(unjson(i) for i in v)
            if k == "$bytes":
                return bytes.fromhex(v)
            if k == "$decimal":
                from decimal import Decimal

                return Decimal(v)
            if k == "$fraction":
                from fractions import Fraction

                return Fraction(int(v[0]), int(v[1]))
            if k == "$surrogate":
                return bytes.fromhex(v).decode("utf-8", "surrogatepass")
        return {k: unjson(v) for k, v in x.items()}
    return x


class Ctx:
    """What one shard observed."""

    def __init__(self, pid, tier, seed, shard=0, nshards=1, scale=1.0):
        self.pid = pid
        self.tier = tier
        self.base_seed = seed
        self.shard = shard
        self.nshards = nshards
        self.seed = derive_seed(seed, pid, shard)
        self.rnd = random.Random(self.seed)
        self.scale = scale
        self.t0 = time.time()
        self.evaluations = 0
        self.hashes = set()
        self.hash_overflow = 0
        self.counters = {}
        self.sets = {}
        self.samples = []
        self.violations = []
        self.nviolations = 0
        self.notes = {}
        self.inconclusive = []
        self.layers = {}
        self._per_mech = {}

    # -- sizing -----------------------------------------------------------------------------
    def n(self, quick, thorough):
        """Workload size for this shard: the tier's total divided over the shards."""
        total = quick if self.tier == "quick" else thorough
        total = total * self.scale
        per = int(total // self.nshards)
        if self.shard < int(total) % self.nshards:
            per += 1
        return max(per, 1 if self.shard == 0 else 0)

    def mine(self, index: int) -> bool:
        """Round-robin partition of an enumerated (exhaustive) workload over the shards."""
        return index % self.nshards == self.shard

    def quick(self):
        return self.tier == "quick"

    def elapsed(self):
        return time.time() - self.t0

    # -- recording ---------------------------------------------------------------------------
    def count(self, name, k=1):
        self.counters[name] = self.counters.get(name, 0) + k

    def seen(self, name, value):
        s = self.sets.setdefault(name, set())
        if len(s) < 5000:
            s.add(value if isinstance(value, (str, int)) else repr(value))

    def evaluated(self, k=1):
        self.evaluations += k

    def nontrivial(self, *key):
        """Register one distinct non-trivial case (by the property's stated rule)."""
        if len(self.hashes) < MAX_HASHES_PER_SHARD:
            self.hashes.add(h64(*key))
        else:
            self.hash_overflow += 1

    def sample(self, obj, cap=6):
        if len(self.samples) < cap:
            self.samples.append(jsonable(obj))

    def layer(self, name, status, **facts):
        """status: 'observed' | 'unreachable' (an internal probe was never hit) | 'skipped'"""
        self.layers[name] = dict(status=status, **facts)

    def note(self, name, value):
        self.notes[name] = jsonable(value)

    def violation(self, kind, witness, mechanism=None):
        """kind: short label of the oracle that fired; witness: everything needed to re-run that
        one case; mechanism: classifier key matched against known_findings.json."""
        self.nviolations += 1
        self.count("violations/" + kind)
        self.count("mechanism/" + str(mechanism))
        # keep a few witnesses per mechanism, so that a frequent (possibly known) mechanism can
        # never crowd out a rare one
        per = self._per_mech.get(mechanism, 0)
        if per < 6 and len(self.violations) < MAX_VIOLATIONS_KEPT:
            self._per_mech[mechanism] = per + 1
            self.violations.append(
                dict(kind=kind, mechanism=mechanism, witness=jsonable(witness), shard=self.shard, seed=self.base_seed)
            )
            # a witness in hand must survive whatever happens to this process afterwards (a change under test that also
            # exhausts memory gets the shard killed): the first few are flushed at once
            if len(self.violations) <= 4 and getattr(self, "partial_path", None):
                try:
                    tmp = self.partial_path + ".tmp"
                    with open(tmp, "w") as f:
                        json.dump(self.dump(), f)
                    os.replace(tmp, self.partial_path)
                except Exception:  # noqa: BLE001
                    pass

    def set_inconclusive(self, reason):
        self.inconclusive.append(reason)

    def dump(self):
        return dict(
            pid=self.pid,
            shard=self.shard,
            evaluations=self.evaluations,
            hashes=sorted(self.hashes),
            hash_overflow=self.hash_overflow,
            counters=self.counters,
            sets={k: sorted(v, key=repr) for k, v in self.sets.items()},
            samples=self.samples,
            violations=self.violations,
            nviolations=self.nviolations,
            notes=self.notes,
            inconclusive=self.inconclusive,
            layers=self.layers,
            wall_s=self.elapsed(),
        )


# ---------------------------------------------------------------------------------------------
# tree identity


def assert_tree():
    """The shard must be looking at the working tree it was asked to look at."""
    import pyab_experiment

    f = os.path.realpath(pyab_experiment.__file__)
    want = os.path.realpath(os.path.join(REPO, "src"))
    if not f.startswith(want + os.sep):
        raise RuntimeError(f"pyab_experiment imported from {f}, expected under {want}")
    return f


def tree_identity():
    out = {}
    try:
        out["head"] = subprocess.run(
            ["git", "-C", REPO, "rev-parse", "HEAD"], capture_output=True, text=True, timeout=20
        ).stdout.strip()
        diff = subprocess.run(["git", "-C", REPO, "diff", "HEAD"], capture_output=True, timeout=20).stdout
        out["worktree_diff_sha256"] = hashlib.sha256(diff).hexdigest()[:16] if diff else "clean"
    except Exception as e:  # git missing / not a repo: informational only
        out["error"] = repr(e)
    return out


# ---------------------------------------------------------------------------------------------
# shard side


def shard_main(argv):
    pid, tier, shard, nshards, seed, out = argv[0], argv[1], int(argv[2]), int(argv[3]), int(argv[4]), argv[5]
    import faulthandler

    faulthandler.enable()
    scale = float(os.environ.get("VERIF_SCALE", "1"))
    ctx = Ctx(pid, tier, seed, shard, nshards, scale)
    ctx.partial_path = out + ".partial"
    try:
        # bound the address space of a shard: runaway memory in the code under test becomes a MemoryError inside the case
        # (an outcome like any other) instead of an out-of-memory kill of some process
        import resource

        gb = float(os.environ.get("VERIF_SHARD_MEM_GB", "3"))
        if gb > 0:
            resource.setrlimit(resource.RLIMIT_AS, (int(gb * 2**30), int(gb * 2**30)))
    except Exception:  # noqa: BLE001
        pass
    try:
        ctx.note("module_file", assert_tree())
        mod = importlib.import_module("pyabv.props." + pid.lower())
        mod.run(ctx)
    except BaseException as e:  # harness failure, never a verdict on the code under test
        ctx.set_inconclusive("shard-crashed: " + "".join(traceback.format_exception(e))[-1500:])
    with open(out, "w") as f:
        json.dump(ctx.dump(), f)
    return 0


# ---------------------------------------------------------------------------------------------
# parent side


def load_known():
    p = os.path.join(HOME, "known_findings.json")
    if not os.path.exists(p):
        return []
    with open(p) as f:
        return json.load(f).get("findings", [])


def merge(parts):
    m = dict(
        evaluations=0, hashes=set(), hash_overflow=0, counters={}, sets={}, samples=[], violations=[],
        nviolations=0, notes={}, inconclusive=[], layers={}, shard_wall=[],
    )
    for p in parts:
        m["evaluations"] += p["evaluations"]
        m["hashes"].update(p["hashes"])
        m["hash_overflow"] += p["hash_overflow"]
        for k, v in p["counters"].items():
            m["counters"][k] = m["counters"].get(k, 0) + v
        for k, v in p["sets"].items():
            m["sets"].setdefault(k, set()).update(v)
        m["samples"].extend(p["samples"])
        m["violations"].extend(p["violations"])
        m["nviolations"] += p["nviolations"]
        for k, v in p["notes"].items():
            m["notes"].setdefault(k, v)
        m["inconclusive"].extend(p["inconclusive"])
        for k, v in p["layers"].items():
            cur = m["layers"].get(k)
            if cur is None:
                m["layers"][k] = dict(v)
            else:
                if v["status"] == "observed":
                    cur["status"] = "observed"
                for fk, fv in v.items():
                    if fk != "status" and isinstance(fv, (int, float)) and isinstance(cur.get(fk, 0), (int, float)):
                        cur[fk] = cur.get(fk, 0) + fv
        m["shard_wall"].append(round(p["wall_s"], 2))
    return m


def nshards_for(mod, tier):
    cores = os.cpu_count() or 2
    if "VERIF_SHARDS" in os.environ:
        return max(1, int(os.environ["VERIF_SHARDS"]))
    if tier == "quick":
        return min(getattr(mod, "QUICK_SHARDS", 2), max(1, cores - 1))
    return min(getattr(mod, "THOROUGH_SHARDS", 14), max(1, cores - 2))


def spec_of(pid):
    """Static description of the property module without importing the repository."""
    return importlib.import_module("pyabv.props." + pid.lower())


def run_shards(pid, tier, seed, nshards, timeout):
    parts_dir = os.path.join(OUT, "evidence", ".parts", pid)
    os.makedirs(parts_dir, exist_ok=True)
    for fn in os.listdir(parts_dir):
        os.unlink(os.path.join(parts_dir, fn))
    procs = []
    env = dict(os.environ)
    env.setdefault("PYTHONHASHSEED", "0")
    for i in range(nshards):
        out = os.path.join(parts_dir, f"{tier}-{i}.json")
        log = open(os.path.join(parts_dir, f"{tier}-{i}.log"), "w")
        p = subprocess.Popen(
            [PYTHON, "-B", "-m", "pyabv", "--shard", pid, tier, str(i), str(nshards), str(seed), out],
            stdout=log, stderr=subprocess.STDOUT, env=env, cwd=HOME,
        )
        procs.append((i, p, out, log))
    parts, problems = [], []
    deadline = time.time() + timeout
    for i, p, out, log in procs:
        try:
            p.wait(timeout=max(1, deadline - time.time()))
        except subprocess.TimeoutExpired:
            p.kill()
            p.wait()
            problems.append(f"shard {i} watchdog fired after {timeout}s")
        log.close()
        if os.path.exists(out):
            try:
                with open(out) as f:
                    parts.append(json.load(f))
            except Exception as e:
                problems.append(f"shard {i} output unreadable: {e!r}")
        elif os.path.exists(out + ".partial"):
            # the shard died after it had reported violations: the witnesses stand on their own
            try:
                with open(out + ".partial") as f:
                    parts.append(json.load(f))
                problems.append(f"shard {i} died rc={p.returncode} after reporting violations (kept)")
            except Exception as e:
                problems.append(f"shard {i} died rc={p.returncode}; partial output unreadable: {e!r}")
        elif not any(s.startswith(f"shard {i} ") for s in problems):
            tail = open(log.name).read()[-800:]
            problems.append(f"shard {i} died rc={p.returncode}: {tail}")
    return parts, problems, parts_dir


def finish(pid, tier, seed, mod, merged, problems, t0, nshards):
    known = [k for k in load_known() if k.get("property") == pid]
    open_keys = {k["key"]: k for k in known if k.get("status") == "open"}
    real, known_hit = [], {}
    for v in merged["violations"]:
        if v.get("mechanism") in open_keys:
            known_hit.setdefault(v["mechanism"], []).append(v)
        else:
            real.append(v)
    # witnesses are capped per mechanism; the counters carry the true totals per mechanism
    mech_counts = {k[len("mechanism/"):]: v for k, v in merged["counters"].items() if k.startswith("mechanism/")}
    n_real = sum(v for k, v in mech_counts.items() if k not in open_keys)
    n_known = sum(v for k, v in mech_counts.items() if k in open_keys)

    distinct = len(merged["hashes"])
    min_nt = getattr(mod, "MIN_NONTRIVIAL", {"quick": 2, "thorough": 2})[tier]
    reasons = list(problems) + list(merged["inconclusive"])
    scale = float(os.environ.get("VERIF_SCALE", "1"))
    if distinct < min_nt * min(scale, 1.0):
        reasons.append(f"only {distinct} distinct non-trivial cases observed (< {min_nt}): deciding monitor starved")
    extra = {}
    if hasattr(mod, "finalize"):
        try:
            extra = mod.finalize(merged, tier) or {}
            reasons.extend(extra.pop("inconclusive", []))
            for v in extra.pop("violations", []):
                (known_hit.setdefault(v["mechanism"], []) if v.get("mechanism") in open_keys else real).append(v)
        except Exception as e:
            reasons.append("finalize failed: " + repr(e))

    os.makedirs(os.path.join(OUT, "replays"), exist_ok=True)
    replay_paths, shown, per_mech = [], [], {}
    for v in real:
        m = v.get("mechanism")
        if per_mech.get(m, 0) >= 3 or len(replay_paths) >= 30:
            continue
        per_mech[m] = per_mech.get(m, 0) + 1
        blob = json.dumps(dict(property=pid, tier=tier, **v), sort_keys=True, ensure_ascii=True)
        name = f"{pid}-{hashlib.sha256(blob.encode()).hexdigest()[:12]}.json"
        path = os.path.join(OUT, "replays", name)
        with open(path, "w") as f:
            f.write(blob)
        replay_paths.append(path)
        shown.append(v)

    nviol = max(n_real, len(real))
    coverage = dict(
        evaluations=merged["evaluations"],
        distinct_nontrivial=distinct,
        rule=getattr(mod, "RULE", ""),
        samples=merged["samples"][:8],
        counters=dict(sorted(merged["counters"].items())),
        observed={k: (sorted(v, key=repr) if len(v) <= 80 else {"count": len(v), "first": sorted(v, key=repr)[:40]})
                  for k, v in sorted(merged["sets"].items())},
        layers=merged["layers"],
        notes=merged["notes"],
        shards=nshards,
        shard_wall_s=merged["shard_wall"],
        distinct_hashes_dropped_over_cap=merged["hash_overflow"],
        tree=tree_identity(),
        known_findings_reproduced=sorted(known_hit),
        verdict="violated" if real else ("inconclusive" if reasons else "held on what was observed"),
        inconclusive_reasons=reasons,
        exhaustive=False,
    )
    coverage.update(extra)
    ev = dict(
        property_id=pid, tier=tier, seed=seed, level="exploration", coverage=coverage,
        assumptions=list(getattr(mod, "ASSUMPTIONS", [])), wall_s=round(time.time() - t0, 2),
        violations=nviol,
    )
    os.makedirs(os.path.join(OUT, "evidence"), exist_ok=True)
    tmp = os.path.join(OUT, "evidence", f".{pid}.json.tmp")
    with open(tmp, "w") as f:
        json.dump(ev, f, indent=1, ensure_ascii=True, sort_keys=False)
    os.replace(tmp, os.path.join(OUT, "evidence", f"{pid}.json"))

    for key, vs in sorted(known_hit.items()):
        print(f"KNOWN-FINDING: property={pid} {open_keys[key]['what']} [{key}; reproduced {mech_counts.get(key, len(vs))}x this run]")
    print(
        f"{pid} {tier} seed={seed}: evaluations={merged['evaluations']} distinct_nontrivial={distinct} "
        f"violations={nviol} known={n_known} wall={ev['wall_s']}s"
    )
    if real:
        for k, cnt in sorted(mech_counts.items()):
            if k not in open_keys:
                print(f"  mechanism {k}: {cnt} violation(s)")
        for v, path in list(zip(shown, replay_paths))[:8]:
            w = json.dumps(v["witness"], ensure_ascii=True)
            print(f"  violation kind={v['kind']} mechanism={v.get('mechanism')} witness={w[:360]}")
        for path in replay_paths:
            print(f"VIOLATION property={pid} replay={path}")
        return 1
    if reasons:
        for r in reasons[:5]:
            print(f"INCONCLUSIVE property={pid} reason={r[:1200]}")
        return 2
    return 0


def main(argv):
    if argv and argv[0] == "--shard":
        return shard_main(argv[1:])
    if not argv:
        print("usage: check <ID> quick|thorough | <ID> --replay <file>")
        return 2
    pid = argv[0].upper()
    if pid not in ALL_IDS:
        print(f"unknown property {pid}")
        return 2
    if len(argv) >= 3 and argv[1] == "--replay":
        return replay_main(pid, argv[2])
    tier = argv[1] if len(argv) > 1 else os.environ.get("VERIF_TIER", "quick")
    if tier not in ("quick", "thorough"):
        print("tier must be quick or thorough")
        return 2
    seed = int(os.environ.get("VERIF_SEED", "0") or 0)
    t0 = time.time()
    try:
        mod = spec_of(pid)
    except ImportError as e:
        print(f"INCONCLUSIVE property={pid} reason=no check module for this property ({e})")
        return 2
    nshards = nshards_for(mod, tier)
    timeout = getattr(mod, "WATCHDOG_S", {"quick": 900, "thorough": 5400})[tier]
    parts, problems, parts_dir = run_shards(pid, tier, seed, nshards, timeout)
    merged = merge(parts)
    rc = finish(pid, tier, seed, mod, merged, problems, t0, nshards)
    if rc == 0 and not os.environ.get("VERIF_KEEP_PARTS"):
        for fn in os.listdir(parts_dir):
            os.unlink(os.path.join(parts_dir, fn))
    return rc


def replay_main(pid, path):
    """Re-run exactly one recorded witness in a fresh interpreter against the working tree."""
    with open(path) as f:
        rec = json.load(f)
    ctx = Ctx(pid, rec.get("tier", "quick"), int(rec.get("seed", 0)))
    assert_tree()
    mod = importlib.import_module("pyabv.props." + pid.lower())
    if not hasattr(mod, "replay"):
        print(f"INCONCLUSIVE property={pid} reason=no replay for this property")
        return 2
    mod.replay(ctx, rec["kind"], unjson(rec["witness"]))
    known = {k["key"] for k in load_known() if k.get("property") == pid and k.get("status") == "open"}
    real = [v for v in ctx.violations if v.get("mechanism") not in known]
    if real:
        print(f"  reproduced: kind={real[0]['kind']} witness={json.dumps(real[0]['witness'])[:800]}")
        print(f"VIOLATION property={pid} replay={path}")
        return 1
    if ctx.violations:
        print(f"KNOWN-FINDING: property={pid} {ctx.violations[0].get('mechanism')}")
        return 0
    print(f"{pid} replay: witness no longer violates the property on this tree")
    return 0
