#!/usr/bin/env bash
# tools/seed_flaky.sh <verif_seed> <seed dirs...>: re-runs, with another VERIF_SEED, exactly the checks that caught each
# seeded change with seed 0, and reports the ones that no longer fire (detections that depend on the random workload)
cd "$(dirname "$0")/.."
vs="$1"; shift
for s in "$@"; do
  [ -f "$s/last_run.json" ] || continue
  checks=$(/venv/bin/python -c "import json,sys; print(','.join(json.load(open('$s/last_run.json')).get('caught_by') or []))")
  [ -z "$checks" ] && { echo "$s: not caught with seed 0"; continue; }
  VERIF_SEED=$vs /venv/bin/python tools/seed_run.py "$s" --checks "$checks" --no-tests --label "seed$vs" -j 4 2>/dev/null | /venv/bin/python -c "
import sys,json
d=json.load(sys.stdin)
lost=[c for c,v in d['checks'].items() if v[0]!=1]
print('$s seed=$vs', 'all still fire' if not lost else 'NOT FIRING: '+str(lost), 'of', sorted(d['checks']))
"
done
