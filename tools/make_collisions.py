#!/usr/bin/env python3
"""Writes data/collisions.json: pairs of VALID experiment texts (same name, same fields, different group label) that collide
under weak change-detection functions a maintainer might plausibly swap in for the full MD5 of the source: zlib.crc32,
zlib.adler32, a digest truncated to 8 hex digits (front or back), the byte sum, the length.  Used by C11: an evaluator
holding one text of a pair and asked to recompile the other must switch.  Pure search, no repository code."""

import hashlib
import json
import os
import zlib

HERE = os.path.dirname(os.path.dirname(os.path.abspath(__file__)))


def text(i):
    return 'def exp { splitters: uid return "L%d" weighted 1, "x" weighted 1 }' % i


def main():
    fns = {
        "md5[:8]": lambda b: hashlib.md5(b).hexdigest()[:8],
        "md5[-8:]": lambda b: hashlib.md5(b).hexdigest()[-8:],
        "sha1[:8]": lambda b: hashlib.sha1(b).hexdigest()[:8],
        "sha256[:8]": lambda b: hashlib.sha256(b).hexdigest()[:8],
        "blake2b-4": lambda b: hashlib.blake2b(b, digest_size=4).hexdigest(),
    }
    seen = {k: {} for k in fns}
    found = {}
    i = 0
    while len(found) < len(fns) and i < 3_000_000:
        b = text(i).encode()
        for k, f in fns.items():
            if k in found:
                continue
            h = f(b)
            j = seen[k].setdefault(h, i)
            if j != i:
                found[k] = (j, i)
        i += 1
    out = {k: dict(a=text(a), b=text(b), label_a="L%d" % a, label_b="L%d" % b) for k, (a, b) in found.items()}
    # CRC-32 detects every burst shorter than 32 bits, so counter labels never collide: use 10-hex-digit labels
    seen = {}
    for i in range(2_000_000):
        lab = hashlib.md5(b"%d" % i).hexdigest()[:10]
        t = 'def exp { splitters: uid return "%s" weighted 1, "x" weighted 1 }' % lab
        h = zlib.crc32(t.encode())
        if h in seen and seen[h][0] != lab:
            out["crc32"] = dict(a=seen[h][1], b=t, label_a=seen[h][0], label_b=lab)
            break
        seen[h] = (lab, t)
    with open(os.path.join(HERE, "data", "collisions.json"), "w") as f:
        json.dump(out, f, indent=1, sort_keys=True)
    print({k: v for k, v in found.items()}, "searched", i)


if __name__ == "__main__":
    main()
