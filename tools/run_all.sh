#!/usr/bin/env bash
# runs every registered check of one tier in sequence and validates the evidence files
# usage: tools/run_all.sh quick|thorough [ids...]
cd "$(dirname "$0")/.."
tier="${1:-quick}"; shift || true
ids=("$@"); [ ${#ids[@]} -eq 0 ] && ids=(C01 C02 C03 C04 C05 C06 C07 C08 C09 C10 C11 C12 C13 C14 C15 C16 C17 C18)
fail=0
for id in "${ids[@]}"; do
  s=$(date +%s)
  out=$(./check "$id" "$tier" 2>&1); rc=$?
  echo "$id rc=$rc $(($(date +%s)-s))s  $(echo "$out" | grep -E "^$id " | cut -c1-160)"
  [ $rc -ne 0 ] && { fail=1; echo "$out" | grep -E "VIOLATION|INCONCLUSIVE|mechanism|violation kind" | cut -c1-400 | head -8; }
done
python3-vt - <<'PY'
import json, jsonschema, glob
schema = json.load(open('/root/.vp/EVIDENCE.schema.json'))
bad = 0
for f in sorted(glob.glob('/verif/evidence/C*.json')):
    try:
        jsonschema.validate(json.load(open(f)), schema)
    except Exception as e:
        bad += 1; print('INVALID', f, str(e)[:200])
print('evidence files valid' if not bad else f'{bad} invalid evidence files')
PY
exit $fail
