#!/usr/bin/env python3
"""Replaces the generated tables of DESIGN.md section 5 (5.3, 5.3b, 5.3c, 5.4) with the current output of
tools/design_tables.py.  The prose around them is kept; the intro paragraph of 5.4 is regenerated from the counts."""
import json
import os
import re
import subprocess
import sys

HERE = os.path.dirname(os.path.dirname(os.path.abspath(__file__)))
out = subprocess.run([sys.executable, os.path.join(HERE, "tools", "design_tables.py")], capture_output=True, text=True).stdout
blocks = [b.strip("\n") for b in re.split(r"\n\s*\n", out) if b.strip().startswith("|")]
by_head = {b.split("|")[1].strip(): b for b in blocks}
mut, ben, bens, seeds = (by_head["deliberate break"], by_head["behaviour-preserving refactoring"], by_head["independently written refactoring"], by_head["seeded change"])

p = os.path.join(HERE, "DESIGN.md")
s = open(p, encoding="utf-8").read()


def replace_table(s, first_cell, new):
    i = s.index("| " + first_cell + " |")
    j = i
    while True:
        k = s.index("\n", j) + 1
        if not s[k:k + 1] == "|":
            break
        j = k
    return s[:i] + new + "\n" + s[k:]


s = replace_table(s, "deliberate break", mut)
s = replace_table(s, "behaviour-preserving refactoring", ben)
if "### 5.3c" in s:
    s = replace_table(s, "independently written refactoring", bens)
s = replace_table(s, "seeded change", seeds)

# counts for the 5.4 intro
sd = os.path.join(HERE, "seeded")
n = own = anyc = first_none = first_known = thor = 0
not_caught = []
for name in sorted(os.listdir(sd)):
    mp = os.path.join(sd, name, "meta.json")
    if not os.path.exists(mp):
        continue
    m = json.load(open(mp))
    n += 1
    cb = m.get("caught_by") or []
    tb = m.get("caught_by_thorough_tier") or []
    anyc += bool(cb or tb)
    own += m["breaks_property"] in cb
    thor += (not cb) and bool(tb)
    if not cb and not tb:
        not_caught.append(name)
    b = m.get("caught_by_before_strengthening")
    if b is not None:
        first_known += 1
        first_none += not b
intro = (f"{n} changes (rounds 1-9, see 5.1 item 4), all confirmed: the patch applies, the 59 baseline tests pass with it, its\n"
         f"demonstration passes on /repo and fails with the change. The check of the property the change was written against is\n"
         f"in bold. {anyc} are caught by at least one check ({thor} of them only by a thorough tier), {own} by the quick tier of the check of\n"
         f"their own property" + (f"; not caught: {', '.join(not_caught)}" if not_caught else "") + ". The last column shows what the checks *as they stood when the\n"
         f"change was first run* caught (recorded from round 4, wave 2, on: {first_known} changes, {first_none} of them caught by no check at first);\n"
         f"the column before it is the run after strengthening. Rows of rounds 1-3 date from the end of round 3, rows of later\n"
         f"rounds from the end of their round; the own-property check of every change of rounds 1-4 was re-run with the final\n"
         f"code (`last_run.ownfinal.json`): see the note below the table.\n")
i = s.index("### 5.4 Independently seeded changes")
i = s.index("\n", i) + 2
j = s.index("| seeded change |", i)
s = s[:i] + intro + "\n" + s[j:]
open(p, "w", encoding="utf-8").write(s)
print("spliced:", n, "seeds,", anyc, "caught,", own, "by own quick tier,", thor, "thorough only; first-run recorded", first_known, "missed at first", first_none, "not caught", not_caught)
