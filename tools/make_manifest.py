#!/usr/bin/env python3
"""Regenerates /verif/MANIFEST.json from the property modules (one source of truth for the
level text / technique of each check) and validates it against the schema when jsonschema is
importable (tooling venv)."""

import importlib
import json
import os
import sys

HERE = os.path.dirname(os.path.dirname(os.path.abspath(__file__)))
sys.path.insert(0, HERE)

BASELINE = (
    "cd /repo && env -u PYAB_VERIF /venv/bin/python -m pytest -ra -q -p no:cacheprovider --timeout=900 "
    "--continue-on-collection-errors"
)


def main():
    checks, na = [], []
    for i in range(1, 19):
        pid = "C%02d" % i
        path = os.path.join(HERE, "pyabv", "props", pid.lower() + ".py")
        if not os.path.exists(path):
            na.append(dict(property_id=pid, reason="check not built yet (work in progress; see DESIGN.md section 3)"))
            continue
        mod = importlib.import_module("pyabv.props." + pid.lower())
        if getattr(mod, "NOT_APPLICABLE", None):
            na.append(dict(property_id=pid, reason=mod.NOT_APPLICABLE))
            continue
        checks.append(
            dict(
                property_id=pid,
                quick_cmd=f"./check {pid} quick",
                thorough_cmd=f"./check {pid} thorough",
                evidence_file=f"/verif/evidence/{pid}.json",
                replay_cmd_template=f"./check {pid} --replay {{path}}",
                engine="pyabv",
                level_claimed=dict(
                    category="exploration",
                    text=getattr(mod, "LEVEL_TEXT", "runtime monitoring of generated executions; held on what was observed"),
                    design_ref=f"DESIGN.md section 3, {pid}",
                ),
                level_note=getattr(mod, "LEVEL_NOTE", "; ".join(getattr(mod, "ASSUMPTIONS", []))),
                technique=getattr(mod, "TECHNIQUE", "runtime monitoring: oracle over observed executions of the real code"),
            )
        )
    manifest = dict(
        version=1,
        setup_cmd="./setup.sh",
        hooks=dict(
            guard="PYAB_VERIF",
            enable="none needed: no instrumentation is committed to /repo; probes are applied from the harness by "
                   "rebinding module attributes, sys.monitoring, audit hooks and icontract decorators",
            baseline_off_cmd=BASELINE,
            source_commits=[],
            add_only=True,
        ),
        engines=[
            dict(
                name="pyabv",
                path="/verif/pyabv",
                serves_properties=[c["property_id"] for c in checks],
                kind_free_text="runtime monitors over the real code: independent reference model (lexer, parser, "
                               "router, exact-rational bucketing), grammar-directed workload generators, history / "
                               "metamorphic / statistical checkers, icontract contracts, sys.monitoring and audit-hook "
                               "probes, cross-process transcripts, thread stress with yield injection",
            )
        ],
        checks=checks,
        notes="All checks: ./check <ID> quick|thorough, exit 0 held / 1 violated / 2 inconclusive. "
              "Known findings: /verif/known_findings.json. Seeded breaks used to validate the monitors: /verif/seeded.",
        not_applicable=na,
    )
    out = os.path.join(HERE, "MANIFEST.json")
    with open(out, "w") as f:
        json.dump(manifest, f, indent=1)
        f.write("\n")
    try:
        import jsonschema

        schema = json.load(open("/root/.vp/MANIFEST.schema.json"))
        jsonschema.validate(manifest, schema)
        print("MANIFEST.json valid:", len(checks), "checks,", len(na), "not applicable")
    except ImportError:
        print("MANIFEST.json written (jsonschema not importable here; run with python3-vt to validate)")


if __name__ == "__main__":
    main()
