#!/usr/bin/env python3
"""Regenerates /verif/MANIFEST.json from the property modules (one source of truth for the
level text / technique of each check) and validates it against the schema when jsonschema is
importable (tooling venv)."""

import importlib
import json
import os
import sys

HERE = os.path.dirname(os.path.dirname(os.path.abspath(__file__)))
sys.path.insert(0, HERE)

BASELINE = (
    "cd /repo && env -u PYAB_VERIF /venv/bin/python -m pytest -ra -q -p no:cacheprovider --timeout=900 "
    "--continue-on-collection-errors"
)


TECHNIQUE = {
    "C01": "runtime monitoring: single-valuedness checker over in-process call histories and cross-process transcripts (child interpreters with hostile environments)",
    "C02": "runtime monitoring: differential oracle (independent reference router) over exhaustive small-scope and generated programs, one label per return statement",
    "C03": "runtime monitoring: exact-rational partition oracle over real ids, golden MD5-preimage boundary ids and substituted hash positions (attribute-rebinding probe)",
    "C04": "runtime monitoring: offline statistical checker (chi-square goodness of fit + independence, alpha 1e-9) over recorded assignment counts of generated id populations",
    "C05": "runtime monitoring: per-literal micro-programs judged by the reference lexer's reading; value/type assertions on returned groups; hash-key probe for salts",
    "C06": "runtime monitoring: token-mutation workload judged by an independent three-valued recogniser (raises vs returns observed at the client boundary)",
    "C07": "runtime monitoring: outcome-class monitor (group member or unroutable error) over generated sentences, identifier pools and size-limit shapes",
    "C08": "runtime monitoring: metamorphic monitor (trivia variants of one token sequence) with behavioural fingerprint and choice-function probe",
    "C09": "runtime monitoring: metamorphic pair checker (equal / must-differ / must-raise relations) plus hashed-key probe",
    "C10": "runtime monitoring: relational checker over results of one unit under many weight vectors (ramp monotonicity, interval intersection in exact rationals) plus hash probe",
    "C11": "runtime monitoring: operation-history checker against an executable sequential model (fresh evaluator of the last accepted text), exhaustive short histories + random, with source-free failpoints (sys.monitoring PY_START fault injection) and near-recursion-limit calls",
    "C12": "runtime monitoring: differential against an independent implementation of the published scheme, fixed known answers, golden ids",
    "C13": "runtime monitoring: harmless-twin differential with masked-AST comparison, sys.monitoring CALL events from generated code, builtins sentinels and audit hooks",
    "C14": "runtime monitoring: translation validation by execution (exec of generated module text vs in-memory evaluator) over generated programs, both layouts",
    "C15": "runtime monitoring: totality monitor over value classes (outcome membership, v vs str(v) metamorphic relation, range assertion on the position function)",
    "C16": "runtime monitoring: icontract postconditions/snapshots on the real function + related-call driver + chi-square check of the random branch",
    "C17": "runtime monitoring: multi-thread stress with 1 us switch interval and sys.monitoring LINE-event yield injection, results compared with sequential reference; overlap evidence recorded",
    "C18": "runtime monitoring: icontract contracts on the real helpers + grid driver (textbook formulas, monotonicity pairs, stdlib normal quantile)",
}
LEVEL = (
    "exploration: the real code is executed on generated / enumerated workloads while an oracle observes; the verdict is "
    "'held on the K executions observed' (K and the classes covered are in the evidence file), never a proof. "
)


def main():
    checks, na = [], []
    for i in range(1, 19):
        pid = "C%02d" % i
        path = os.path.join(HERE, "pyabv", "props", pid.lower() + ".py")
        if not os.path.exists(path):
            na.append(dict(property_id=pid, reason="check not built yet (work in progress; see DESIGN.md section 3)"))
            continue
        mod = importlib.import_module("pyabv.props." + pid.lower())
        if getattr(mod, "NOT_APPLICABLE", None):
            na.append(dict(property_id=pid, reason=mod.NOT_APPLICABLE))
            continue
        checks.append(
            dict(
                property_id=pid,
                quick_cmd=f"./check {pid} quick",
                thorough_cmd=f"./check {pid} thorough",
                evidence_file=f"/verif/evidence/{pid}.json",
                replay_cmd_template=f"./check {pid} --replay {{path}}",
                engine="pyabv",
                level_claimed=dict(
                    category="exploration",
                    text=LEVEL + getattr(mod, "RULE", ""),
                    design_ref=f"DESIGN.md section 3, {pid}",
                ),
                level_note=getattr(mod, "LEVEL_NOTE", "; ".join(getattr(mod, "ASSUMPTIONS", []))),
                technique=TECHNIQUE[pid],
            )
        )
    manifest = dict(
        version=1,
        setup_cmd="./setup.sh",
        hooks=dict(
            guard="PYAB_VERIF",
            enable="none needed: no instrumentation is committed to /repo; probes are applied from the harness by "
                   "rebinding module attributes, sys.monitoring, audit hooks and icontract decorators",
            baseline_off_cmd=BASELINE,
            source_commits=[],
            add_only=True,
        ),
        engines=[
            dict(
                name="pyabv",
                path="/verif/pyabv",
                serves_properties=[c["property_id"] for c in checks],
                kind_free_text="runtime monitors over the real code: independent reference model (lexer, parser, "
                               "router, exact-rational bucketing), grammar-directed workload generators, history / "
                               "metamorphic / statistical checkers, icontract contracts, sys.monitoring and audit-hook "
                               "probes, cross-process transcripts, thread stress with yield injection",
            )
        ],
        checks=checks,
        notes="All checks: ./check <ID> quick|thorough, exit 0 held / 1 violated / 2 inconclusive. "
              "Known findings: /verif/known_findings.json. Seeded breaks used to validate the monitors: /verif/seeded.",
        not_applicable=na,
    )
    out = os.path.join(HERE, "MANIFEST.json")
    with open(out, "w") as f:
        json.dump(manifest, f, indent=1)
        f.write("\n")
    try:
        import jsonschema

        schema = json.load(open("/root/.vp/MANIFEST.schema.json"))
        jsonschema.validate(manifest, schema)
        print("MANIFEST.json valid:", len(checks), "checks,", len(na), "not applicable")
    except ImportError:
        print("MANIFEST.json written (jsonschema not importable here; run with python3-vt to validate)")


if __name__ == "__main__":
    main()
