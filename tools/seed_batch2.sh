#!/usr/bin/env bash
# tools/seed_batch2.sh <tier> <seed dirs...> : like seed_batch.sh, but skips seeds that already have last_run.json
# (several of these can run side by side on disjoint or overlapping lists)
cd "$(dirname "$0")/.."
tier="$1"; shift
for s in "$@"; do
  [ -e "$s/last_run.json" ] && continue
  mkdir "$s/.running" 2>/dev/null || continue
  /venv/bin/python tools/seed_run.py "$s" --all -j 4 --tier "$tier" >/dev/null 2>&1
  rmdir "$s/.running"
  /venv/bin/python - "$s" <<'PY'
import json,sys,os
d=json.load(open(os.path.join(sys.argv[1],'last_run.json')))
print(os.path.basename(sys.argv[1]), 'caught_by=', d.get('caught_by'), 'inconclusive=', [c for c,v in d.get('checks',{}).items() if v['rc']==2])
PY
done
