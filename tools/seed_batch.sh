#!/usr/bin/env bash
# tools/seed_batch.sh <tier> <seed dirs...> : runs all checks against each seeded change, one line summary each
cd "$(dirname "$0")/.."
tier="$1"; shift
for s in "$@"; do
  /venv/bin/python tools/seed_run.py "$s" --all -j 4 --tier "$tier" 2>/dev/null | /venv/bin/python -c "
import sys,json
d=json.load(sys.stdin)
ok=all(d.get(k) for k in ('patch_applies','tests_pass_with_change','demo_passes_without_change','demo_fails_with_change'))
print('$s', 'confirmed' if ok else 'NOT-CONFIRMED '+str({k:d.get(k) for k in ('patch_applies','tests_pass_with_change','demo_passes_without_change','demo_fails_with_change')}), 'caught_by=', d.get('caught_by'), {c:v[1] for c,v in d.get('checks',{}).items() if v[0]==1}, 'inconclusive=', [c for c,v in d.get('checks',{}).items() if v[0]==2])
"
done
