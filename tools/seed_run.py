#!/usr/bin/env python3
"""Confirms a seeded change and runs the checks against it.

    tools/seed_run.py <dir with patch.diff demo.py> [--checks C01,C02 | --all] [--tier quick] [--no-tests]

The patch is applied to a scratch copy of /repo (outside /repo and /verif, removed afterwards), never
to /repo itself.  Steps: (1) patch applies; (2) the repository's 59 tests pass on the patched copy;
(3) demo.py passes on the unchanged /repo and fails on the patched copy; (4) the requested checks
are run against the patched copy (VERIF_REPO) with their output redirected (PYABV_OUT).  Prints a
JSON summary (and writes it to <dir>/last_run.json)."""

import argparse
import json
import os
import shutil
import subprocess
import sys
import tempfile

HERE = os.path.dirname(os.path.dirname(os.path.abspath(__file__)))
ALL = ["C%02d" % i for i in range(1, 19)]


def sh(cmd, **kw):
    return subprocess.run(cmd, capture_output=True, text=True, **kw)


def main():
    ap = argparse.ArgumentParser()
    ap.add_argument("dir")
    ap.add_argument("--checks", default="")
    ap.add_argument("--all", action="store_true")
    ap.add_argument("--tier", default="quick")
    ap.add_argument("--no-tests", action="store_true")
    ap.add_argument("--repo", default="/repo")
    ap.add_argument("-j", type=int, default=3)
    ap.add_argument("--label", default="", help="write <dir>/last_run.<label>.json instead of last_run.json")
    args = ap.parse_args()
    d = os.path.abspath(args.dir)
    patch = os.path.join(d, "patch.diff")
    demo = os.path.join(d, "demo.py")
    scratch = tempfile.mkdtemp(prefix="pyab-seed-")
    res = dict(dir=d)
    try:
        for sub in ("src", "tests"):
            shutil.copytree(os.path.join(args.repo, sub), os.path.join(scratch, sub))
        shutil.copy(os.path.join(args.repo, "pyproject.toml"), scratch)
        p = sh(["git", "apply", patch], cwd=scratch)
        if p.returncode != 0:
            p = sh(["patch", "-p1", "-i", patch], cwd=scratch)
        res["patch_applies"] = p.returncode == 0
        if p.returncode != 0:
            res["patch_error"] = (p.stdout + p.stderr)[-500:]
            print(json.dumps(res, indent=1))
            return 1
        env = dict(os.environ, PYTHONPATH=os.path.join(scratch, "src"))
        if not args.no_tests:
            p = sh(["/venv/bin/python", "-B", "-m", "pytest", "-q", "-p", "no:cacheprovider", "tests"], cwd=scratch, env=env, timeout=1800)
            res["tests_pass_with_change"] = p.returncode == 0
            res["tests_tail"] = p.stdout.strip().splitlines()[-1:] if p.stdout else []
        if os.path.exists(demo):
            p0 = sh(["/venv/bin/python", "-B", demo], cwd=d, env=dict(os.environ, PYTHONPATH=os.path.join(args.repo, "src")), timeout=900)
            p1 = sh(["/venv/bin/python", "-B", demo], cwd=d, env=env, timeout=900)
            res["demo_passes_without_change"] = p0.returncode == 0
            res["demo_fails_with_change"] = p1.returncode != 0
            res["demo_output_with_change"] = (p1.stdout + p1.stderr)[-400:]
        checks = ALL if args.all else [c for c in args.checks.split(",") if c]
        fired = {}

        def run_check(c):
            env2 = dict(os.environ, VERIF_REPO=scratch, PYABV_OUT=os.path.join(scratch, "out-" + c))
            p = sh([os.path.join(HERE, "check"), c, args.tier], cwd=HERE, env=env2, timeout=7200)
            mech = sorted({ln.split("mechanism ")[1].split(":")[0] for ln in p.stdout.splitlines() if ln.startswith("  mechanism ")})
            known = [ln[:160] for ln in p.stdout.splitlines() if ln.startswith("KNOWN-FINDING")]
            first = [ln.strip()[:500] for ln in p.stdout.splitlines() if ln.startswith("  violation kind=")][:2]
            return c, dict(rc=p.returncode, mechanisms=mech, first=first, inconclusive=[ln[:300] for ln in p.stdout.splitlines() if ln.startswith("INCONCLUSIVE")][:2])

        from concurrent.futures import ThreadPoolExecutor

        with ThreadPoolExecutor(args.j) as ex:
            for c, r in ex.map(run_check, checks):
                fired[c] = r
        res["checks"] = fired
        res["caught_by"] = [c for c, r in fired.items() if r["rc"] == 1]
        res["tier"] = args.tier
    finally:
        shutil.rmtree(scratch, ignore_errors=True)
    res["verif_seed"] = os.environ.get("VERIF_SEED", "0")
    with open(os.path.join(d, f"last_run.{args.label}.json" if args.label else "last_run.json"), "w") as f:
        json.dump(res, f, indent=1)
    brief = {k: v for k, v in res.items() if k != "checks"}
    brief["checks"] = {c: (r["rc"], r["mechanisms"]) for c, r in res.get("checks", {}).items()}
    print(json.dumps(brief, indent=1))
    return 0


if __name__ == "__main__":
    sys.exit(main())
