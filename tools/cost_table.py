#!/usr/bin/env python3
"""Prints the 'measured cost and volume' table of DESIGN.md section 7 from two evidence directories:
   tools/cost_table.py <quick evidence dir> <thorough evidence dir>"""
import json
import os
import sys

q, t = sys.argv[1], sys.argv[2]
print("| check | quick: wall s / oracle decisions / distinct non-trivial | thorough: wall s / oracle decisions / distinct non-trivial |")
print("|---|---|---|")
for i in range(1, 19):
    cid = "C%02d" % i
    row = []
    for d, tier in ((q, "quick"), (t, "thorough")):
        p = os.path.join(d, cid + ".json")
        if not os.path.exists(p):
            row.append("-")
            continue
        e = json.load(open(p))
        if e.get("tier") != tier:
            row.append(f"(evidence is of tier {e.get('tier')})")
            continue
        row.append(f"{e['wall_s']:.0f} / {e['coverage']['evaluations']:,} / {e['coverage']['distinct_nontrivial']:,}")
    print(f"| {cid} | {row[0]} | {row[1]} |")
