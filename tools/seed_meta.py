#!/usr/bin/env python3
"""Writes seeded/<id>/meta.json from the description below and the last confirmed run
(seeded/<id>/last_run.json, produced by tools/seed_run.py)."""

import json
import os

HERE = os.path.dirname(os.path.dirname(os.path.abspath(__file__)))

# id -> (what the change is, what it needs in order to manifest)
DESC = {
    "C01-1": ("hash-key builder memoised with functools.lru_cache", "two units whose splitter values compare equal but print differently (1, 1.0, True) evaluated in different orders / processes"),
    "C01-2": ("`if not input_id:` instead of `is None` in deterministic_choice", "no salt and every splitter value empty (key == ''): the call falls into the random branch"),
    "C02-1": ("`not <comparison>` rewritten with a wrong negation table (> -> <)", "`not` applied directly to an ordering comparison and an input exactly equal to the operand"),
    "C02-2": ("lone nested `if` merged into the outer predicate", "outer predicate true, inner false, and a later else-if / else exists: a later branch is taken instead of the unroutable error"),
    "C03-1": ("weights rendered with the :g format in generated code", "a weight with more than 6 significant digits and a hash position next to the moved boundary"),
    "C03-2": ("hash position divided by 0xFFFFFFFF instead of 2**32", "the unit whose digest starts with ffffffff, or a position just below a boundary that now lands on it"),
    "C04-1": ("numeric ids canonicalised through float()", "sequential integer ids beyond 2**53 (snowflake-style): neighbours collapse into one key"),
    "C04-2": ("salt passed as keyword that the unweighted shortcut ignores; equal weights routed to the shortcut", "a `salt:` clause together with all-equal weights, compared under two salts"),
    "C05-1": ("string token value taken with strip('\"\\'')", "a string literal that begins or ends with the other quote character"),
    "C05-2": ("tuple members joined with ', ' (no trailing comma)", "a tuple literal with exactly one member"),
    "C06-1": ("module-level lexer/parser singletons", "first a text with an unterminated block comment, then `junk */ <valid definition>`"),
    "C06-2": ("grammar: number -> MINUS number", "a duplicated minus sign before a numeric literal (`--5`)"),
    "C07-1": ("lexer refactored to keyword remapping; two-word keywords lose their word boundary", "`not` directly followed by an identifier starting with 'in' (`not index > 3`)"),
    "C07-2": ("condition identifiers collected by a separate walk that does not descend into nested tuples", "an identifier that only occurs inside a tuple nested in a tuple"),
    "C08-1": ("block-comment fast path searching '*/' from the token start", "a block comment whose first body character is '/'"),
    "C08-2": ("module-level lexer/parser singletons", "a rejected text with an unclosed '/*' followed by any further parse in the process"),
    "C09-1": ("lru_cache on a composite-key helper", "uid=7 then uid=7.0 (same salt, same process)"),
    "C09-2": ("generated code exec'd into its own namespace", "an experiment named partial / deterministic_choice / ExperimentConditionalFailedError"),
    "C10-1": ("condition fields registered as locals and therefore joined into the hash key", "the same unit evaluated with two values of a routing field"),
    "C10-2": ("even weights emitted without weights=, unweighted path uses int(md5,16) % n", "a weight ramp that passes through an exactly even split"),
    "C11-1": ("module-level lexer/parser singletons", "a recompile / construction with an unterminated block comment, then any other compile on any evaluator"),
    "C11-2": ("checksum computed over whitespace-normalised source", "recompile from T to a sibling differing only in whitespace inside a string literal or after a // comment"),
    "C12-1": ("NFC normalisation before hashing", "a salt or splitter value that is non-ASCII and not in composed form"),
    "C12-2": ("lru_cache on a composite-key helper", "1 then 1.0 / True under the same salt in one process"),
    "C13-1": ("hash key emitted as one f-string", "a salt containing braces together with at least one splitter"),
    "C13-2": ("literals with a backslash emitted as raw strings", "a literal ending in an odd number of backslashes (and a second literal later on the same generated line)"),
    "C14-1": ("de-duplicated field list also used for the helper's signature", "exposed layout and a splitter field that is also used in a predicate"),
    "C14-2": ("generate_code prepends the DSL text as an unescaped docstring", "source text containing \\x, \\u, \\N or an odd number of triple quotes"),
    "C15-1": ("key built with str.format, salt inside the template", "a salt containing '{' or '}'"),
    "C15-2": ("compiled function wrapped in lru_cache", "uid=1 then uid=True on one long-lived evaluator; unhashable extra kwargs"),
    "C16-1": ("equal-weights fast path before the total validation", "an all-equal weight vector whose total is not positive and finite"),
    "C16-2": ("cumulative weights cached per id(weights)", "the same list object passed again after an in-place edit"),
    "C17-1": ("module-level lexer/parser singletons", "two parse_source calls overlapping in different threads"),
    "C17-2": ("one shared exec namespace for generated code", "two threads compiling sources with the same experiment name at the same moment"),
    "C18-1": ("probit rewritten without abs()", "alpha > 0.5 (upper-tail probability)"),
    "C18-2": ("Agresti-Coull uses round(p*n)", "small n where p*n is not an integer"),
    "C01-3": ("recompile checksum over whitespace-collapsed source", "recompile of a long-lived evaluator to a text that differs only in significant whitespace (inside a literal, newline after a // comment)"),
    "C01-4": ("helper named choose_<id>_variant + exposed layout exec'd into one module-level dict", "two live evaluators built from different revisions that share the experiment name"),
    "C02-3": ("'no else after return' cleanup of generated code with a shallow _always_returns", "three-level shape: a chain closed by else whose non-final arm contains an if without else that falls through"),
    "C02-4": ("string literals NFC-normalised in the lexer", "a literal that is not in NFC form compared with a field holding exactly its code points"),
    "C03-3": ("repeated group literals folded through a dict with summed weights", "a return statement naming the same literal twice (or 1 and 1.0) in non-adjacent slots"),
    "C03-4": ("bisect upper bound lowered while isclose(cum[hi-1], total)", "a last group carrying <= 1e-9 of the total but >= 1 grid point, and a unit in the top grid points"),
    "C04-3": ("splitter that also appears in a predicate is dropped from the hashed key", "an experiment whose splitter field is also used in an if"),
    "C04-4": ("per-evaluator lru_cache of assignments that recompile() never clears", "evaluate units, recompile with another salt / weights, evaluate the same units again"),
    "C05-3": ("adjacent groups with equal definition merged (itertools.groupby)", "an int literal directly next to the float literal of the same value in one return statement"),
    "C05-4": ("program text BOM-stripped and NFC-normalised before lexing", "a non-NFC string literal anywhere (group, operand, tuple member, salt)"),
    "C06-3": ("grammar accepts a trailing comma in tuples", "a comma directly before the closing parenthesis of a tuple"),
    "C06-4": ("number rule \\d+(\\.\\d*)? swallows a trailing dot", "an integer literal followed by '.' and no digit ('weighted 3.')"),
    "C07-3": ("trailing raise omitted when _is_exhaustive() (which never inspects the closing else body) says so", "every chain ends in else but some else body holds a nested chain without else; input routed into that hole"),
    "C07-4": ("module-level lexer/parser pair, reset only on the unterminated-comment path", "a rejected text whose unterminated /* opens before the program is complete, then any grammatical text"),
    "C08-3": ("sly: ignore rules compiled into a skip pattern fetched once (not per lexer state)", "'//' right after '/*' (or at the start of a later comment line) with the closing '*/' on that line"),
    "C08-4": ("BlockComment state skips quoted text as a unit", "a block comment holding one unbalanced quote, closed on its line, with another quote later on that line"),
    "C09-3": ("hash key emitted as one f-string (braces of the salt not doubled)", "a salt containing {name} of something in scope (kwargs, a condition field)"),
    "C09-4": ("source fingerprint with comments stripped by a string-unaware regex", "recompile to a revision differing only inside a literal after '//' (URL) or in blank runs inside a literal"),
    "C10-3": ("extra digest bits for tiny shares: slices bits//4 hex chars but divides by 1<<bits", "smallest positive share below 2^-16 with a bit count not divisible by 4"),
    "C10-4": ("groups of one return folded into a dict keyed by label", "the same label in two non-adjacent slots; ramps that only widen leading slices"),
    "C11-3": ("per-instance namespace keyed by experiment name + fast path back to the previous source", "new(A), recompile(B), recompile(A) with A and B sharing the experiment name"),
    "C11-4": ("text -> AST cache filled before the unterminated-comment check", "the same 'valid program + unclosed /*' text given twice (any evaluator)"),
    "C12-3": ("hash key emitted as one f-string", "a salt containing '{' or '}'"),
    "C12-4": ("`if not input_id:` instead of `is None`", "no / empty salt and every splitter value empty: key == ''"),
    "C13-3": ("provenance comment with the verbatim salt in the generated header", "a salt containing a raw carriage return followed by code"),
    "C13-4": ("block comments blanked by a regex pre-pass instead of a lexer state", "one literal containing '/*' and a later literal on the same line containing '*/'"),
    "C14-3": ("generate_code re-indents with an unanchored replace of four blanks", "a string literal containing four or more consecutive blanks"),
    "C14-4": ("compiled functions shared between instances, keyed by whitespace-normalised checksum", "source A compiled first, then B differing only in whitespace inside a quoted literal"),
    "C15-3": ("`if not input_id:` instead of `is None`", "no salt and every splitter value printing as ''"),
    "C15-4": ("whole-number floats keyed as ints (id_to_str)", "a splitter value that is a finite whole-number float (1.0, 1e22) vs the string that prints the same"),
    "C16-3": ("running totals made non-decreasing in place", "cum_weights passed as a list whose totals dip (a negative weight) with a positive final total"),
    "C16-4": ("exact integer branch keyed on type(cum_weights[-1])", "caller-supplied cum_weights whose last entry is an int while earlier ones are fractional"),
    "C17-3": ("class-level cache of the last compiled experiment, checksum published before the function", "two threads compiling the same source at once right after another source was compiled"),
    "C17-4": ("last-key memo in deterministic_proba (two module globals)", "a thread pre-empted between the two stores while another thread hashes"),
    "C18-3": ("z-score memoised under round(confidence, 6)", "two calls in one process whose confidences differ beyond the sixth decimal"),
    "C18-4": ("method names resolved by prefix", "an unknown method name that is a prefix of a known one ('', 'w', 'agresti-coul')"),
    "C02-5": ("`int` dropped from the operand Union of TerminalPredicate ('float already accepts int')", "an integer literal beyond 2^53 as a comparison operand and a field value within a few units of it"),
    "C02-6": ("tuple production drops repeated members", "a tuple literal with a duplicate member used with == / != / ordering or nested in an outer tuple"),
    "C05-5": ("right-hand tuple of in / not in de-duplicated recursively", "a nested tuple literal whose inner tuple repeats a member ((1, 1), ..)"),
    "C05-6": ("shared pydantic Config with anystr_strip_whitespace", "a salt literal that starts or ends with white space"),
    "C06-5": ("sly: tokenize() resets the pushed lexer state in its finally block", "a complete definition followed by an unclosed /* (the end-of-input state check never fires)"),
    "C06-6": ("recompile checksum over whitespace-collapsed source", "recompile(B) where B has A's non-blank characters but is outside the grammar"),
    "C07-5": ("sly: 'parser is not consuming input' guard counting reductions between shifts", "a right-recursive list with 42+ members (groups, else-if arms, tuple members, splitters)"),
    "C07-6": ("rendered return line memoised per group list (indentation included)", "the same group list returned from two branches at different depths, the deeper one later"),
    "C08-5": ("sly: text normalised with splitlines() before lexing", "a // comment containing CR, VT, FF, FS..RS, NEL, LS or PS followed by token-like text"),
    "C08-6": ("comments allowed inside 'else if' / 'not in' via a backtracking gap regex", "a // comment between else and { containing 'if <valid predicate>' (also: catastrophic backtracking on some comments)"),
    "C11-5": ("identity fast path (id(source), len(source)) in front of the checksum", "the accepted text freed and a different text of equal length allocated at the same address"),
    "C11-6": ("sly: class-level lexer state stack + end-of-input check", "one rejected text with an unterminated block comment, then any compile on any evaluator"),
    "C13-5": ("typed tuple aliases in the pydantic AST", "a depth-3 tuple of (key, value) pairs with a pair keyed \"name\": pydantic coerces it into an Identifier"),
    "C13-6": ("generate() assembled with string.Template placeholders", "a string literal containing $key / $name / $$"),
    "C14-5": ("exposed helper decorated with lru_cache", "exposed layout and an unhashable condition-field value (list, dict, set)"),
    "C14-6": ("`not a != b` folded in place on the AST + per-text AST cache in generate_code", "generate_code called twice for a text with `not` directly on != / not in"),
    "C17-5": ("sly: one pre-created YaccProduction per grammar production (class-level)", "two threads reducing the same production at once with different values"),
    "C01-5": ("repeated groups of a return merged by iterating a set of labels", "a return naming the same string group twice, evaluated in processes with different PYTHONHASHSEED"),
    "C01-6": ("'standby' slot for rollbacks; _checksum only assigned in the compile branch", "A -> B -> A -> B on one instance: the last recompile(B) is skipped"),
    "C03-5": ("integer scaling of the hash position when total >= 2^21", "decimal weights whose sum is at least 2 097 152"),
    "C03-6": ("linear scan with `target <= cum[i]` for <= 8 groups", "hash position 0 exactly and leading zero-weight groups"),
    "C04-5": ("salt moved into a module constant in a namespace shared by all evaluators", "two evaluators alive in one process, the first called after the second was compiled"),
    "C04-6": ("multi-field keys hashed per field and XOR-folded", "a unit whose two splitter fields carry the same value"),
    "C09-5": ("field lists sorted with key=str.lower", "two splitter names differing only in letter case, declared in another order"),
    "C09-6": ("'wide record' fast path: run_experiment(*map(kwargs.get, fields))", "a call that omits a declared field and carries more extra kwargs than fields are missing"),
    "C10-5": ("alias-method tables for return statements with >= 8 groups", "a ramp of a return statement with 8 or more groups"),
    "C10-6": ("cum_weights precomputed at code generation, rounded to 6 decimals", "weights around 1e-6 or smaller"),
    "C12-5": ("natural (numeric-aware) ordering of field names", "splitters like seg2 / seg10 where numeric and lexicographic order disagree"),
    "C12-6": ("latin-1 fast path when encoding the hash key", "a key that is non-ASCII but entirely within U+0000..U+00FF"),
    "C15-5": ("key assembly moved into binning; single-part keys passed raw", "no salt, exactly one splitter, value None"),
    "C15-6": ("fields compared with numbers are converted with as_number() at function entry", "a splitter that is also compared with a float literal, called with an integer-looking string"),
    "C16-5": ("small-population scan with None as 'not found' sentinel", "a population of <= 8 items containing None (not last) whose interval is hit"),
    "C16-6": ("cum_weights of length n+1 with a leading 0 accepted", "a too-long cum_weights list whose first total is 0"),
    "C18-5": ("Wald branch only when p(1-p) > 0, else falls through to Agresti-Coull", "method wald with p exactly 0 or 1"),
    "C18-6": ("asymptotic normal-tail expansion for the z-score below 1e-4", "alpha < 1e-4 (confidence > 0.9998)"),
    "C17-6": ("codegen temporarily raises sys.setrecursionlimit and restores the saved value", "two threads overlapping in codegen on a > 1000-rung else-if ladder, in a particular exit order"),
    # round 4 (Cxx-7, Cxx-8)
    "C01-7": ("generated parameters / key order sorted with key=str.lower", ">= 2 splitter fields that differ only by letter case, evaluated in processes with different hash seeds"),
    "C01-8": ("padded ids stripped by the evaluator, but the field list is a one-shot generator", "a splitter value with leading/trailing whitespace, evaluated twice on the same evaluator (first call after a compile vs later calls)"),
    "C02-7": ("string operands of predicates rendered with json.dumps", "a predicate operand (plain or tuple member) containing a non-BMP character, and the input equal to it"),
    "C02-8": ("Decimal / Fraction field values normalised through float() in the evaluator", "a Decimal or Fraction input closer to a numeric literal of a decisive comparison than double precision"),
    "C03-7": ("weights reduced to smallest whole numbers with Fraction.limit_denominator() (default 1e6)", "a decimal weight with more than 6 decimal places or below 1e-6"),
    "C03-8": ("long population / weight lists wrapped 8 per line with zip(*[iter]*8)", "a return statement with more than 8 groups whose count is not a multiple of 8"),
    "C04-7": ("hash quantised to 10 000 buckets", "a group share below 1e-4, or hundreds of groups"),
    "C04-8": ("salt folded to a 16-bit tag of its MD5", "two salts whose 4-hex-digit tags collide, on the same units"),
    "C05-7": ("string terms rendered with json.dumps", "a string literal operand or tuple member with a code point above U+FFFF"),
    "C05-8": ("exponent notation for numbers; integer tokens go through int(float())", "an integer literal above 2**53 that a double cannot represent"),
    "C06-7": ("block comments skipped with str.find starting at the opener", "the exact sequence `/*/` with no later `*/`"),
    "C06-8": ("conditional rules factored into `branch`; `else` accepts a trailing chain and drops it", "an `else {..}` or `else if` block directly after an `else {..}` block"),
    "C07-7": ("condition fields passed to the inner function positionally from a differently ordered list", "a field that is both splitter and condition field plus a condition-only field sorting before it (the README's complete example)"),
    "C07-8": ("friendly reserved-word check also rejects Python soft keywords", "an experiment id, splitter or condition identifier named type, match, case or _"),
    "C08-7": ("parse_source passes the text through inspect.cleandoc (expandtabs)", "a TAB inside a string literal, with different trivia (column) in front of it"),
    "C08-8": ("// comments honour a trailing backslash (line splicing)", "a // comment whose text ends with a backslash, followed by a line that matters"),
    "C09-7": ("splitters that are also condition fields dropped from the hash key", "a declared splitter that also appears in a predicate; two units differing only in it"),
    "C09-8": ("numeric splitter values rendered by value through float()", "ints >= 2**53, long Decimals or Fractions as splitter values (neighbours collapse); 7.0 vs 7"),
    "C10-7": ("weights that are whole numbers summing to 100 use md5 % 100 instead of the 32-bit position", "the same unit under a whole-percent vector and under another spelling of shares (1:9, 0.2:0.8)"),
    "C10-8": ("weights rendered one by one with trailing zeros stripped from repr", "a weight whose float repr is exponent notation with a fractional mantissa and an exponent ending in 0 (2.5e-10, 1.5e+20)"),
    "C11-7": ("required-field list updated before the compile step of recompile", "a text that parses and generates but fails Python's compile() (about 100 nested ifs) and reads a field the installed program does not"),
    "C11-8": ("change detection with zlib.adler32", "a new text that differs from the installed one only by an Adler-32-neutral edit (aca -> bab, def -> ecg)"),
    "C12-7": ("backslash escapes accepted and unescaped in string literals", "a salt containing a doubled backslash or a backslash before a quote character"),
    "C12-8": ("key built with `v if isinstance(v, str) else str(v)`", "a splitter value that is an instance of a str subclass whose __str__ differs from its characters (str-Enum)"),
    "C13-7": ("string literal pattern closes on either quote character", "a literal containing the other quote character and shaped like DSL text"),
    "C13-8": ("unroutable error message quotes the rendered predicates inside double quotes", "a condition literal containing a quote character, shaped so that the message ends early and code follows"),
    "C14-7": ("evaluator hands integral floats to the compiled function as ints", "a float-typed integral value on a splitter field; generated text hashes '12.0', evaluator '12'"),
    "C14-8": ("evaluator compiles literal allow-lists as set displays, generate_code keeps tuples", "an unhashable (or oddly hashed) left operand of in / not in against an all-literal tuple"),
    "C15-7": ("hash position divided by 0xFFFFFFFF", "the key whose MD5 starts with ffffffff (plain id 4958115803): u == 1.0, last group even if weighted 0"),
    "C15-8": ("escaped-string regex for literals", "a salt ending in an odd number of backslashes (no longer terminates), or containing a doubled backslash"),
    "C16-7": ("finiteness test rewritten from not isfinite(total) to total == inf", "a NaN total (NaN weight, inf and -inf together, NaN last cum_weight)"),
    "C16-8": ("id stripped of surrounding whitespace on the weighted path only", "an id differing from its strip(), compared between the unweighted call and equal integer weights"),
    "C17-7": ("evaluator keeps (namespace, AST) and looks the function up by experiment name per call", "a call racing with a recompile between two sources whose experiments have different names"),
    "C17-8": ("sly: LALR tables built lazily by the first parse()", "the first ever parse of the interpreter happening in >= 2 threads at once (cold start)"),
    "C18-7": ("integer p taken as a success count", "p given as the int 1 (or True) with n > 1"),
    "C18-8": ("probit scale constant hoisted and truncated to 0.6266", "alpha within about 0.02 of 0.5 (confidence below 0.036): z drops below the true normal quantile"),
}


def main():
    sd = os.path.join(HERE, "seeded")
    for name in sorted(os.listdir(sd)):
        d = os.path.join(sd, name)
        lr = os.path.join(d, "last_run.json")
        if not os.path.isdir(d) or not os.path.exists(lr):
            continue
        run = json.load(open(lr))
        what, needs = DESC.get(name, ("see NOTES.md", "see NOTES.md"))
        meta = dict(
            id=name,
            breaks_property=name.split("-")[0],
            change=what,
            needs_to_manifest=needs,
            written_by="independent sub-agent given only the property text and a scratch git worktree of /repo (nothing from /verif)"
                       + ("; round 2: additionally told which round-1 ideas not to repeat" if int(name.split("-")[1]) in (3, 4) else "")
                       + ("; round 3: told the ideas of rounds 1-2 and asked to work in the vendored sly library / the pydantic AST / files "
                          "earlier rounds left alone (C02, C05-C08, C11, C13, C14, C17) or given a per-property focus area (the other nine)" if int(name.split("-")[1]) in (5, 6) else "")
                       + ("; round 4: told the ideas of rounds 1-3 and asked for something different that a broad random workload of ordinary programs "
                          "and values would hit rarely or never (type-dependent slips, ordering assumptions, drifting code paths, well-meant normalisation, "
                          "upgrades of the vendored sly)" if int(name.split("-")[1]) >= 7 else ""),
            confirmed=dict(
                patch_applies=run.get("patch_applies"),
                baseline_tests_pass_with_change=run.get("tests_pass_with_change"),
                demo_passes_on_unchanged_tree=run.get("demo_passes_without_change"),
                demo_fails_with_change=run.get("demo_fails_with_change"),
            ),
            what_was_run="tools/seed_run.py seeded/%s --all --tier %s  (scratch copy of /repo + git apply patch.diff; 59 baseline tests; "
                         "demo.py on /repo and on the copy; every check's %s tier against the copy via VERIF_REPO)" % (name, run.get("tier"), run.get("tier")),
            caught_by=run.get("caught_by"),
            mechanisms={c: r["mechanisms"] for c, r in run.get("checks", {}).items() if r["rc"] == 1},
        )
        with open(os.path.join(d, "meta.json"), "w") as f:
            json.dump(meta, f, indent=1)
        print(name, meta["caught_by"])


if __name__ == "__main__":
    main()
