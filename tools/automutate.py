#!/usr/bin/env python3
"""Systematic mutation analysis of the checks (a complement to the hand-written breaks and the seeded changes).

Stage 1 (`--stage tests`): generate first-order AST mutants of the repository's own modules, apply each to a scratch copy
and run the repository's 59 tests; keep the mutants the test-suite does NOT notice (only those are interesting: the
brief asks for changes that "still compile and pass the existing tests").
Stage 2 (`--stage checks`): run the checks relevant to the mutated file against every such survivor (quick tier, stop at
the first check that fires) and report which mutants no check notices; those are triaged by hand (equivalent mutant, or
a gap to close).

    tools/automutate.py --stage tests  --out selftest/automutants.json  [-j 6] [--files binning,stats]
    tools/automutate.py --stage checks --out selftest/automutants.json  [-j 3]

Nothing is ever applied to /repo: every mutant lives in its own temp copy, removed afterwards."""

import argparse
import ast
import copy
import json
import os
import shutil
import subprocess
import sys
import tempfile
from concurrent.futures import ThreadPoolExecutor

HERE = os.path.dirname(os.path.dirname(os.path.abspath(__file__)))
REPO = "/repo"
FILES = {
    "binning": ("src/pyab_experiment/binning/binning.py", ["C03", "C12", "C16", "C15", "C10", "C04", "C01"]),
    "stats": ("src/pyab_experiment/utils/stats.py", ["C18"]),
    "generator": ("src/pyab_experiment/codegen/python/python_generator.py", ["C02", "C12", "C07", "C05", "C14", "C13", "C09", "C10", "C03"]),
    "evaluator": ("src/pyab_experiment/experiment_evaluator.py", ["C11", "C07", "C01", "C17", "C06", "C09"]),
    "wrapper": ("src/pyab_experiment/utils/wraper_functions.py", ["C06", "C14", "C08", "C07", "C11", "C17"]),
    "lexer": ("src/pyab_experiment/language/lexer.py", ["C06", "C08", "C05", "C07", "C02"]),
    "grammar": ("src/pyab_experiment/language/grammar.py", ["C02", "C06", "C05", "C07", "C12"]),
    "ast": ("src/pyab_experiment/data_structures/syntax_tree.py", ["C05", "C07", "C02", "C03", "C13"]),
    "operators": ("src/pyab_experiment/utils/custom_operators.py", ["C02"]),
    "exceptions": ("src/pyab_experiment/codegen/python/custom_exceptions.py", ["C02", "C14"]),
    # the vendored parser generator: the lexer runtime, and the LR parse loop of yacc.py (its table construction is not
    # mutated: a broken table breaks every program at once)
    "slylex": ("src/pyab_experiment/sly/lex.py", ["C06", "C08", "C05", "C07", "C02", "C17"]),
    "slyparse": ("src/pyab_experiment/sly/yacc.py", ["C06", "C02", "C07", "C05", "C17"]),
}
LINE_RANGES = {"slyparse": (2150, 2400)}

CMP = {ast.Lt: ast.LtE, ast.LtE: ast.Lt, ast.Gt: ast.GtE, ast.GtE: ast.Gt, ast.Eq: ast.NotEq, ast.NotEq: ast.Eq,
       ast.Is: ast.IsNot, ast.IsNot: ast.Is, ast.In: ast.NotIn, ast.NotIn: ast.In}
BIN = {ast.Add: ast.Sub, ast.Sub: ast.Add, ast.Mult: ast.Div, ast.Div: ast.Mult, ast.Pow: ast.Mult, ast.FloorDiv: ast.Div}
UNWRAP = {"sorted", "list", "str", "abs", "float", "int", "tuple", "set"}


class Sites(ast.NodeVisitor):
    """enumerates mutation sites as (kind, node-path description)"""

    def __init__(self):
        self.sites = []
        self.doc_ids = set()

    def visit(self, node):
        if isinstance(node, (ast.FunctionDef, ast.ClassDef, ast.Module, ast.AsyncFunctionDef)):
            body = getattr(node, "body", [])
            if body and isinstance(body[0], ast.Expr) and isinstance(body[0].value, ast.Constant) and isinstance(body[0].value.value, str):
                self.doc_ids.add(id(body[0].value))
        if isinstance(node, ast.Compare):
            for i, op in enumerate(node.ops):
                if type(op) in CMP:
                    self.sites.append(("cmp", node, i))
        elif isinstance(node, ast.BoolOp):
            self.sites.append(("bool", node, None))
        elif isinstance(node, ast.UnaryOp) and isinstance(node.op, ast.Not):
            self.sites.append(("not", node, None))
        elif isinstance(node, ast.BinOp) and type(node.op) in BIN:
            self.sites.append(("bin", node, None))
        elif isinstance(node, ast.Constant) and id(node) not in self.doc_ids:
            v = node.value
            if isinstance(v, bool):
                self.sites.append(("const-bool", node, None))
            elif isinstance(v, int):
                self.sites.append(("const-int+1", node, None))
                if v not in (0,):
                    self.sites.append(("const-int-1", node, None))
            elif isinstance(v, float):
                self.sites.append(("const-float", node, None))
            elif isinstance(v, str) and 0 < len(v) <= 14:
                self.sites.append(("const-str-empty", node, None))
                if any(ch in v for ch in "\\*+?.bds"):
                    self.sites.append(("const-str-drop-last", node, None))
        elif isinstance(node, ast.If):
            self.sites.append(("if-negate", node, None))
        elif isinstance(node, ast.Call) and isinstance(node.func, ast.Name) and node.func.id in UNWRAP and len(node.args) == 1 and not node.keywords:
            self.sites.append(("unwrap-call", node, None))
        elif isinstance(node, ast.Subscript) and isinstance(node.slice, ast.Slice):
            self.sites.append(("slice", node, None))
        elif isinstance(node, (ast.Assign, ast.AugAssign, ast.Expr)) and not (isinstance(node, ast.Expr) and isinstance(node.value, ast.Constant)):
            self.sites.append(("delete-stmt", node, None))
        elif isinstance(node, ast.Return) and node.value is not None and not isinstance(node.value, ast.Constant):
            pass
        super().generic_visit(node)


def mutate(tree, index):
    """returns (description, new_tree) for the index-th site of a fresh Sites() walk over a deep copy"""
    t = copy.deepcopy(tree)
    s = Sites()
    s.visit(t)
    kind, node, extra = s.sites[index]
    line = getattr(node, "lineno", 0)
    before = ast.unparse(node)[:80]
    if kind == "cmp":
        node.ops[extra] = CMP[type(node.ops[extra])]()
    elif kind == "bool":
        node.op = ast.Or() if isinstance(node.op, ast.And) else ast.And()
    elif kind == "not":
        node.op = ast.UAdd()  # `+x` keeps truthiness for bools/ints: replaced below by the operand itself
        _replace(t, node, node.operand)
    elif kind == "bin":
        node.op = BIN[type(node.op)]()
    elif kind == "const-bool":
        node.value = not node.value
    elif kind == "const-int+1":
        node.value = node.value + 1
    elif kind == "const-int-1":
        node.value = node.value - 1
    elif kind == "const-float":
        node.value = node.value * 2 if node.value else 1.0
    elif kind == "const-str-empty":
        node.value = ""
    elif kind == "const-str-drop-last":
        node.value = node.value[:-1]
    elif kind == "if-negate":
        node.test = ast.UnaryOp(op=ast.Not(), operand=node.test)
    elif kind == "unwrap-call":
        _replace(t, node, node.args[0])
    elif kind == "slice":
        sl = node.slice
        if sl.upper is not None and isinstance(sl.upper, ast.Constant) and isinstance(sl.upper.value, int):
            sl.upper = ast.Constant(sl.upper.value - 1)
        elif sl.lower is not None and isinstance(sl.lower, ast.Constant) and isinstance(sl.lower.value, int):
            sl.lower = ast.Constant(sl.lower.value + 1)
        else:
            sl.upper = ast.Constant(-1)
    elif kind == "delete-stmt":
        _replace(t, node, ast.Pass())
    ast.fix_missing_locations(t)
    after = ast.unparse(node)[:80] if kind not in ("not", "unwrap-call", "delete-stmt") else "(replaced)"
    return f"{kind} @ line {line}: {before}  ->  {after}", t


def _replace(tree, old, new):
    for parent in ast.walk(tree):
        for field, value in ast.iter_fields(parent):
            if value is old:
                setattr(parent, field, new)
                return
            if isinstance(value, list):
                for i, v in enumerate(value):
                    if v is old:
                        value[i] = new
                        return


def n_sites(tree):
    s = Sites()
    s.visit(copy.deepcopy(tree))
    return len(s.sites)


def scratch_with(relpath, source):
    d = tempfile.mkdtemp(prefix="pyab-auto-")
    for sub in ("src", "tests"):
        shutil.copytree(os.path.join(REPO, sub), os.path.join(d, sub))
    shutil.copy(os.path.join(REPO, "pyproject.toml"), d)
    with open(os.path.join(d, relpath), "w") as f:
        f.write(source)
    return d


def stage_tests(args):
    todo = []
    for key in (args.files.split(",") if args.files else [k for k in FILES if not k.startswith("sly")]):
        rel, _ = FILES[key]
        src = open(os.path.join(REPO, rel)).read()
        tree = ast.parse(src)
        base = ast.unparse(tree)
        lo, hi = LINE_RANGES.get(key, (0, 10**9))
        for i in range(n_sites(tree)):
            try:
                desc, t = mutate(tree, i)
                line = int(desc.split("line ")[1].split(":")[0])
                if not lo <= line <= hi:
                    continue
                new = ast.unparse(t)
            except Exception as e:  # noqa: BLE001
                continue
            if new != base:
                todo.append(dict(file=key, rel=rel, index=i, desc=desc, source=new))
    print(f"{len(todo)} mutants generated", flush=True)

    def run(m):
        d = scratch_with(m["rel"], m["source"])
        try:
            env = dict(os.environ, PYTHONPATH=os.path.join(d, "src"))
            p = subprocess.run(["/venv/bin/python", "-B", "-m", "pytest", "-q", "-x", "-p", "no:cacheprovider", "tests"], cwd=d, env=env,
                               capture_output=True, text=True, timeout=600)
            m["tests"] = "pass" if p.returncode == 0 else "fail"
        except subprocess.TimeoutExpired:
            m["tests"] = "timeout"
        finally:
            shutil.rmtree(d, ignore_errors=True)
        return m

    out = []
    with ThreadPoolExecutor(args.j) as ex:
        for k, m in enumerate(ex.map(run, todo)):
            out.append(m)
            if k % 20 == 0:
                print(k, m["file"], m["tests"], m["desc"][:100], flush=True)
    json.dump([{k: v for k, v in m.items() if k != "source"} for m in out], open(args.out, "w"), indent=0)
    surv = [m for m in out if m["tests"] == "pass"]
    print(f"{len(surv)} of {len(out)} mutants pass the repository's own tests")


def stage_checks(args):
    muts = json.load(open(args.out))
    surv = [m for m in muts if m.get("tests") == "pass" and (not args.files or m["file"] in args.files.split(",")) and "caught_by" not in m]

    def run(m):
        source = m.get("source")
        if source is None:  # the committed file keeps descriptions only: regenerate the mutant from its site index
            tree = ast.parse(open(os.path.join(REPO, m["rel"])).read())
            source = ast.unparse(mutate(tree, m["index"])[1])
        d = scratch_with(m["rel"], source)
        m["caught_by"], m["inconclusive"] = None, []
        try:
            for c in FILES[m["file"]][1]:
                env = dict(os.environ, VERIF_REPO=d, PYABV_OUT=os.path.join(d, "out"))
                p = subprocess.run([os.path.join(HERE, "check"), c, "quick"], cwd=HERE, env=env, capture_output=True, text=True, timeout=3600)
                if p.returncode == 1:
                    m["caught_by"] = c
                    m["mechanisms"] = sorted({ln.split("mechanism ")[1].split(":")[0] for ln in p.stdout.splitlines() if ln.startswith("  mechanism ")})
                    break
                if p.returncode == 2:
                    m["inconclusive"].append(c)
        finally:
            shutil.rmtree(d, ignore_errors=True)
        return m

    with ThreadPoolExecutor(args.j) as ex:
        for k, m in enumerate(ex.map(run, surv)):
            print(("caught by " + m["caught_by"]) if m["caught_by"] else "SURVIVED", m["file"], m["desc"][:110], m["inconclusive"] or "", flush=True)
            if k % 10 == 0:
                json.dump(muts, open(args.out, "w"), indent=0)
    json.dump(muts, open(args.out, "w"), indent=0)
    done = [m for m in muts if m.get("tests") == "pass" and "caught_by" in m]
    print(f"{sum(1 for m in done if m['caught_by'])} of {len(done)} test-surviving mutants are caught by a check")


if __name__ == "__main__":
    ap = argparse.ArgumentParser()
    ap.add_argument("--stage", required=True, choices=["tests", "checks"])
    ap.add_argument("--out", default=os.path.join(HERE, "selftest", "automutants.json"))
    ap.add_argument("--files", default="")
    ap.add_argument("-j", type=int, default=4)
    a = ap.parse_args()
    (stage_tests if a.stage == "tests" else stage_checks)(a)
