#!/usr/bin/env python3
"""Prints the markdown tables of DESIGN.md section 5 from the recorded runs:
   - deliberate breaks: selftest/mutant_results.json (written by tools/mutant_run.py --json)
   - benign refactorings: selftest/benign_results.json
   - seeded changes: seeded/*/meta.json"""

import json
import os
import sys

HERE = os.path.dirname(os.path.dirname(os.path.abspath(__file__)))
sys.path.insert(0, HERE)


def mutants():
    from selftest.mutants import MUTANTS

    notes = {m["name"]: m.get("note", "") for m in MUTANTS}
    p = os.path.join(HERE, "selftest", "mutant_results.json")
    if not os.path.exists(p):
        return
    print("| deliberate break | baseline tests | checks that fired (quick tier) | note |")
    print("|---|---|---|---|")
    for r in json.load(open(p)):
        fired = ", ".join(f"{c} ({'; '.join(m.split('/', 1)[1] for m in v['mechanisms'][:3])})" for c, v in r["checks"].items() if v["rc"] == 1)
        tests = "pass" if r.get("tests") == "pass" else ("fail" if r.get("tests") else "-")
        print(f"| {r['name']} | {tests} | {fired or 'none'} | {notes.get(r['name'], '')} |")


def benign():
    p = os.path.join(HERE, "selftest", "benign_results.json")
    if not os.path.exists(p):
        return
    print("\n| behaviour-preserving refactoring | baseline tests | alarms over all 18 quick tiers |")
    print("|---|---|---|")
    for r in json.load(open(p)):
        alarms = [c for c, v in r["checks"].items() if v["rc"] != 0]
        print(f"| {r['name']} | {r.get('tests', '-')} | {', '.join(alarms) or 'none'} |")


def seeded():
    sd = os.path.join(HERE, "seeded")
    print("\n| seeded change | what it is | needs | confirmed | caught by (quick tier) | first run, before strengthening |")
    print("|---|---|---|---|---|---|")
    for name in sorted(os.listdir(sd), key=lambda n: (n.split("-")[0], int(n.split("-")[1])) if "-" in n else (n, 0)):
        mp = os.path.join(sd, name, "meta.json")
        if not os.path.exists(mp):
            continue
        m = json.load(open(mp))
        ok = all(m["confirmed"].values())
        own = m["breaks_property"]
        cb = ", ".join(("**%s**" % c) if c == own else c for c in m["caught_by"] or [])
        if m.get("caught_by_thorough_tier"):
            cb = (cb + "; " if cb else "") + "thorough tier: " + ", ".join(("**%s**" % c) if c == own else c for c in m["caught_by_thorough_tier"])
        b = m.get("caught_by_before_strengthening")
        first = "not recorded" if b is None else (", ".join(("**%s**" % c) if c == own else c for c in b) or "none")
        print(f"| {name} | {m['change']} | {m['needs_to_manifest']} | {'yes' if ok else 'NO'} | {cb or 'none'} | {first} |")


def benign_seeded():
    sd = os.path.join(HERE, "benign_seeded")
    if not os.path.isdir(sd):
        return
    print("\n| independently written refactoring | what it is (first line of its NOTES.md) | baseline tests | alarms over all 18 quick tiers |")
    print("|---|---|---|---|")
    for name in sorted(os.listdir(sd)):
        lr = os.path.join(sd, name, "last_run.json")
        if not os.path.exists(lr):
            continue
        r = json.load(open(lr))
        notes = os.path.join(sd, name, "NOTES.md")
        first = ""
        if os.path.exists(notes):
            for line in open(notes, encoding="utf-8"):
                if line.strip():
                    first = line.strip().lstrip("# ").replace("|", "/")[:160]
                    break
        alarms = [c for c, v in r.get("checks", {}).items() if v["rc"] != 0]
        print(f"| {name} | {first} | {'pass' if r.get('tests_pass_with_change') else 'FAIL'} | {', '.join(alarms) or 'none'} |")


if __name__ == "__main__":
    mutants()
    benign()
    benign_seeded()
    seeded()
