#!/usr/bin/env python3
"""Monitor validation: apply each deliberate break of selftest/mutants.py to a scratch copy of
/repo (outside /repo and /verif, removed afterwards), optionally confirm the repository's own
tests still pass there, and run the expected checks against the copy (VERIF_REPO).

    tools/mutant_run.py [--tests] [--all-checks C01,C02] [--only name,...] [--tier quick] [-j 4]
"""

import argparse
import json
import os
import shutil
import subprocess
import sys
import tempfile
from concurrent.futures import ThreadPoolExecutor

HERE = os.path.dirname(os.path.dirname(os.path.abspath(__file__)))
sys.path.insert(0, HERE)
from selftest.mutants import BENIGN, MUTANTS  # noqa: E402


def apply(root, m):
    subs = [dict(file=m["file"], old=m["old"], new=m["new"])] + [dict(file=m["file"], **e) for e in m.get("extra", [])]
    subs += list(m.get("extra_files", []))
    for s in subs:
        p = os.path.join(root, s["file"])
        text = open(p).read()
        if s["old"] not in text:
            return f"pattern not found in {s['file']}: {s['old'][:60]!r}"
        open(p, "w").write(text.replace(s["old"], s["new"], 1))
    return None


def run_one(m, args):
    scratch = tempfile.mkdtemp(prefix="pyab-mut-")
    res = dict(name=m["name"], expect=m["expect"], checks={})
    try:
        for d in ("src", "tests"):
            shutil.copytree(os.path.join(args.repo, d), os.path.join(scratch, d))
        shutil.copy(os.path.join(args.repo, "pyproject.toml"), scratch)
        err = apply(scratch, m)
        if err:
            res["error"] = err
            return res
        env = dict(os.environ, VERIF_REPO=scratch, PYTHONPATH=os.path.join(scratch, "src"))
        if args.tests:
            p = subprocess.run(
                ["/venv/bin/python", "-B", "-m", "pytest", "-q", "-p", "no:cacheprovider", "-x", "tests"],
                cwd=scratch, env=env, capture_output=True, text=True, timeout=900)
            res["tests"] = "pass" if p.returncode == 0 else "FAIL: " + p.stdout[-300:]
        checks = args.all_checks.split(",") if args.all_checks else m["expect"]
        for c in checks:
            env2 = dict(env)
            env2.pop("PYTHONPATH")
            env2["PYABV_OUT"] = os.path.join(scratch, "out")
            p = subprocess.run([os.path.join(HERE, "check"), c, args.tier], cwd=HERE, env=env2, capture_output=True,
                               text=True, timeout=3600)
            mech = sorted({ln.split("mechanism ")[1].split(":")[0] for ln in p.stdout.splitlines() if ln.startswith("  mechanism ")})
            res["checks"][c] = dict(rc=p.returncode, mechanisms=mech)
    finally:
        shutil.rmtree(scratch, ignore_errors=True)
    return res


def main():
    ap = argparse.ArgumentParser()
    ap.add_argument("--tests", action="store_true")
    ap.add_argument("--all-checks", default="")
    ap.add_argument("--only", default="")
    ap.add_argument("--tier", default="quick")
    ap.add_argument("--repo", default="/repo")
    ap.add_argument("-j", type=int, default=3)
    ap.add_argument("--json", default="")
    ap.add_argument("--benign", action="store_true", help="run the behaviour-preserving refactorings against ALL checks (none may fire)")
    args = ap.parse_args()
    pool = BENIGN if args.benign else MUTANTS
    if args.benign and not args.all_checks:
        args.all_checks = ",".join("C%02d" % i for i in range(1, 19))
    muts = [m for m in pool if not args.only or m["name"] in args.only.split(",")]
    # evidence files of /verif are overwritten by these runs: callers re-run the real checks afterwards
    results = []
    with ThreadPoolExecutor(args.j) as ex:
        for r in ex.map(lambda m: run_one(m, args), muts):
            results.append(r)
            caught = [c for c, v in r["checks"].items() if v["rc"] == 1]
            missed = [c for c in r["expect"] if r["checks"].get(c, {}).get("rc") != 1]
            alarms = [c for c, v in r["checks"].items() if v["rc"] != 0]
            if args.benign and "error" not in r:
                print(f"{r['name']:36s} tests={r.get('tests', '-'):5s} " + ("SILENT (ok)" if not alarms else "FALSE ALARM / INCONCLUSIVE: " +
                      " ".join(f"{c}:rc{r['checks'][c]['rc']}{r['checks'][c]['mechanisms']}" for c in alarms)), flush=True)
                continue
            status = "ERROR " + r["error"] if "error" in r else ("caught" if caught and not missed else ("MISSED " + ",".join(missed) if missed else "not-caught(as expected)"))
            print(f"{r['name']:32s} tests={r.get('tests', '-'):5s} {status:28s} " +
                  " ".join(f"{c}:rc{v['rc']}{v['mechanisms']}" for c, v in r["checks"].items()), flush=True)
    if args.json:
        json.dump(results, open(args.json, "w"), indent=1)


if __name__ == "__main__":
    main()
