// usage: search targets.txt start count prefix  -> prints "<id> <k>" for ids whose md5 top32 == target
#include <stdio.h>
#include <stdlib.h>
#include <string.h>
#include <stdint.h>
#include <openssl/md5.h>
static int cmp(const void*a,const void*b){uint32_t x=*(uint32_t*)a,y=*(uint32_t*)b;return x<y?-1:x>y;}
int main(int argc,char**argv){
  FILE*f=fopen(argv[1],"r"); uint32_t*t=malloc(sizeof(uint32_t)*100000); int n=0; unsigned long v;
  while(fscanf(f,"%lu",&v)==1) t[n++]=(uint32_t)v;
  qsort(t,n,4,cmp);
  uint8_t*bm=calloc(1<<21,1); // 2^24 bits on top 24 bits
  for(int i=0;i<n;i++){uint32_t h=t[i]>>8; bm[h>>3]|=1<<(h&7);}
  unsigned long long start=strtoull(argv[2],0,10),cnt=strtoull(argv[3],0,10);
  const char*pre=argv[4]; char buf[64]; unsigned char d[16];
  for(unsigned long long i=start;i<start+cnt;i++){
    int len=snprintf(buf,sizeof buf,"%s%llu",pre,i);
    MD5((unsigned char*)buf,len,d);
    uint32_t k=((uint32_t)d[0]<<24)|(d[1]<<16)|(d[2]<<8)|d[3];
    uint32_t h=k>>8;
    if(bm[h>>3]&(1<<(h&7))){ if(bsearch(&k,t,n,4,cmp)) printf("%s %u\n",buf,k); }
  }
  return 0;
}
