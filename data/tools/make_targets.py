"""Regenerates targets.txt: the 32-bit hash positions (top 32 bits of MD5) for
which golden_ids.json holds preimages.  Pure data preparation, run once;
the checks only read golden_ids.json and re-verify every id with hashlib.

    python3 make_targets.py > targets.txt
    gcc -O2 -o md5search md5search.c -lcrypto
    # 16 ranges of 3221225472 candidates "g<n>" each (~12 * 2**32 in total, ~15 min on 16 cores)
    for i in $(seq 0 15); do ./md5search targets.txt $((i*3221225472)) 3221225472 g > out.$i.txt & done
"""
from decimal import Decimal
from fractions import Fraction as F

fr = set()
for D in [2, 3, 4, 5, 6, 7, 8, 9, 10, 12, 16, 20, 32, 64, 100]:
    for j in range(1, D):
        fr.add(F(j, D))
for j in (1, 5, 10, 333, 500, 990, 995, 999):
    fr.add(F(j, 1000))
vecs = [
    ["3.4", "5", "3"],
    ["1000000000", "1"],
    ["1", "1000000000"],
    ["0.000000001", "1"],
    ["1", "0.000000001"],
    ["1", "2", "3", "0", "4"],
    ["0.1", "0.2", "0.3"],
    ["1.5", "2.5", "0", "1"],
    ["999999999.999999999", "0.000000001", "1"],
]
for v in vecs:
    ws = [F(Decimal(x)) for x in v]
    W = sum(ws)
    c = F(0)
    for w in ws[:-1]:
        c += w
        if 0 < c / W < 1:
            fr.add(c / W)
T = {0, 1, 2, 3, 2**32 - 1, 2**32 - 2, 2**32 - 3}
for b in fr:
    x = b * 2**32
    kb = -((-x.numerator) // x.denominator)  # ceil: first grid point >= boundary
    for d in (-2, -1, 0, 1):
        if 0 <= kb + d < 2**32:
            T.add(kb + d)
print("\n".join(map(str, sorted(T))))
